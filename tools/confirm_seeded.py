#!/usr/bin/env python3
"""Confirms each sub-agent change in its own scratch worktree (applies, builds, test suite unchanged, demo fails with / passes without)
and archives it under /verif/seeded/<id>/<mut>/.   usage: tools/confirm_seeded.py [Cxx ...]"""
import json, os, shutil, subprocess, sys, concurrent.futures as cf
V = os.path.dirname(os.path.dirname(os.path.abspath(__file__)))
LIB_DEMOS = {"": {("C12", "mutA"), ("C12", "mutB"), ("C19", "mutB")}, "r2": {("C12", "mutA"), ("C11", "mutB")},
             "r3": {("2", "mutB"), ("6", "mutB"), ("9", "mutB")}, "r4": {("10", "mutA")}, "r5": set(), "r6": set()}[os.environ.get("SEEDED_ROUND", "")]        # demo takes the checkout path, not the binary

def sh(cmd, cwd=None, timeout=1800, env=None):
    p = subprocess.run(cmd, cwd=cwd, shell=isinstance(cmd, str), stdout=subprocess.PIPE, stderr=subprocess.STDOUT, text=True, timeout=timeout, env=env)
    return p.returncode, p.stdout

ROUND = os.environ.get("SEEDED_ROUND", "")          # "" = first round (/tmp/xcp-wt-*), "r2" = second round (/tmp/xcp-r2-*)

def GROUP(pid):
    return {"r3": "r3-file%s", "r4": "r4-theme%s", "r5": "r5-area%s", "r6": "r6-%s"}.get(ROUND, "%s") % pid

def confirm(pid, mut):
    src = {"r2": "/tmp/xcp-r2-%s/_out", "r3": "/tmp/xcp-r3-%s/_out", "r4": "/tmp/xcp-r4-%s/_out", "r5": "/tmp/xcp-r5-%s/_out", "r6": "/tmp/xcp-r6-%s/_out"}.get(ROUND, "/tmp/xcp-wt-%s/_out") % pid
    diff = os.path.join(src, mut + ".diff"); demo = os.path.join(src, mut + "_demo.sh")
    if not (os.path.exists(diff) and os.path.exists(demo)):
        return pid, mut, {"status": "absent"}
    wt = "/tmp/xcp-confirm-%s%s-%s" % (ROUND, pid, mut)
    sh(["git", "-C", "/repo", "worktree", "remove", "--force", wt]); shutil.rmtree(wt, ignore_errors=True)
    rc, out = sh(["git", "-C", "/repo", "worktree", "add", "-q", "--detach", wt, "HEAD"])
    meta = {"property": pid, "mutant": mut, "base_commit": sh(["git", "-C", "/repo", "rev-parse", "--short", "HEAD"])[1].strip()}
    try:
        rc, out = sh(["git", "apply", "--whitespace=nowarn", diff], cwd=wt)
        meta["applies"] = rc == 0
        if rc != 0:
            meta["status"] = "does-not-apply"; meta["detail"] = out[-400:]
            return pid, mut, meta
        rc, out = sh("cargo build --offline 2>&1 | tail -3", cwd=wt)
        meta["builds"] = os.path.exists(os.path.join(wt, "target/debug/xcp"))
        rc, out = sh([os.path.join(V, "tools/baseline.sh")], env=dict(os.environ, XCP_REPO=wt))
        meta["tests_pass_with_change"] = rc == 0; meta["tests_summary"] = out.strip().splitlines()[0] if out.strip() else ""
        arg_with = wt if (pid, mut) in LIB_DEMOS else os.path.join(wt, "target/debug/xcp")
        arg_without = "/repo" if (pid, mut) in LIB_DEMOS else "/repo/target/debug/xcp"
        rc1, out1 = sh(["bash", demo, arg_with], cwd=src, timeout=2400)
        rc0, out0 = sh(["bash", demo, arg_without], cwd=src, timeout=2400)
        meta["demo_exit_with_change"] = rc1; meta["demo_exit_without_change"] = rc0
        meta["demo_tail_with_change"] = out1[-300:]
        ok = meta["builds"] and meta["tests_pass_with_change"] and rc1 != 0 and rc0 == 0
        meta["status"] = "confirmed" if ok else "rejected"
        if ok:
            dst = os.path.join(V, "seeded", GROUP(pid), (ROUND + "-" if ROUND in ("r2",) else "") + mut)
            os.makedirs(dst, exist_ok=True)
            shutil.copy(diff, os.path.join(dst, "patch.diff")); shutil.copy(demo, os.path.join(dst, "demo.sh"))
            for extra in os.listdir(src):
                if extra.endswith((".c", ".py", ".rs")) and os.path.getsize(os.path.join(src, extra)) < 200000:
                    shutil.copy(os.path.join(src, extra), os.path.join(dst, extra))
                if os.path.isdir(os.path.join(src, extra)) and extra.startswith(mut):
                    shutil.copytree(os.path.join(src, extra), os.path.join(dst, extra), dirs_exist_ok=True)
            notes = os.path.join(src, "notes.md")
            if os.path.exists(notes):
                shutil.copy(notes, os.path.join(V, "seeded", GROUP(pid), ("notes-%s.md" % ROUND) if ROUND else "notes.md"))
            meta["ran"] = ["git worktree add (HEAD) + git apply patch.diff", "cargo build --offline", "tools/baseline.sh (XCP_REPO=worktree): the 126 baseline tests pass",
                           "bash demo.sh <changed> -> exit %d" % rc1, "bash demo.sh <unchanged> -> exit 0"]
            json.dump(meta, open(os.path.join(dst, "meta.json"), "w"), indent=1)
        return pid, mut, meta
    finally:
        sh(["git", "-C", "/repo", "worktree", "remove", "--force", wt]); shutil.rmtree(wt, ignore_errors=True)

def main():
    ids = sys.argv[1:] or ([str(i) for i in range(1, 11)] if ROUND in ("r3", "r4") else ([str(i) for i in range(1, 7)] if ROUND == "r5" else ["C%02d" % i for i in range(1, 21)]))
    sh("cargo build --offline", cwd="/repo")
    jobs = [(p, m) for p in ids for m in ("mutA", "mutB")]
    with cf.ThreadPoolExecutor(max_workers=3) as ex:
        for pid, mut, meta in ex.map(lambda j: confirm(*j), jobs):
            print(pid, mut, meta.get("status"), {k: meta.get(k) for k in ("tests_pass_with_change", "demo_exit_with_change", "demo_exit_without_change")}, flush=True)
main()
