#!/usr/bin/env python3
"""Regenerates /verif/MANIFEST.json from the table below (single source of truth for the interface)."""
import json, os, subprocess
V = os.path.dirname(os.path.dirname(os.path.abspath(__file__)))
props = [json.loads(l) for l in open(os.path.join(V, "properties.jsonl"))]

NS_NOTE = ("Trusted: the kernel's path resolution as transcribed in XcpFS.tla; strace/ptrace for kill and fault delivery; the snapshot "
           "walker (lstat/readlink/xattr/content hash). The exhaustive TLC result is bounded by the scenario set (trees of <= ~20 entries).")
CHECKS = {
 "C02": dict(tech="TLA+ model (XcpFS/XcpNS: validation, walker, workers in any order) checked by TLC on every scenario; the same scenarios "
                  "executed on the real binary (both drivers) and the whole-sandbox snapshot judged by the TLC trace spec Trace_NS",
             text="Exhaustive model checking of the name-space design over a structured + seeded scenario family, and spec-to-implementation "
                  "conformance: every scenario is run on the binary rebuilt from /repo and TLC evaluates exit=0 => tree = ExpectedFS(scenario).",
             ref="DESIGN 3, 5 (C02)", note=NS_NOTE),
 "C03": dict(tech="TLC invariant InvC03 on XcpNS (every state = every kill point) + real runs under alias spellings, SIGKILL at each mutating "
                  "syscall and single injected faults (strace), snapshots judged by Trace_NS",
             text="Model checking of 'protected entries never change' in every reachable state of the design, plus kill-point and fault "
                  "enumeration on the real binary with TLC judging each before/after snapshot (content, kind, mode, mtime, owner, xattrs, inode).",
             ref="DESIGN 5 (C03)", note=NS_NOTE),
 "C08": dict(tech="TLC invariant InvC08 over all interleavings of the walker probe with queued operations + real runs (workers 1..16, repeated "
                  "racy layouts) judged by Trace_NS",
             text="Model checking of the no-clobber design over all walker/worker interleavings; conformance runs on pre-populated destinations "
                  "with collisions of every kind and position; TLC compares every pre-existing entry bit for bit and requires a non-zero exit.",
             ref="DESIGN 5 (C08)", note=NS_NOTE),
 "C13": dict(tech="XcpNS walk with dereference (canonicalisation, followed links, loop detection) checked by TLC; real runs judged by Trace_NS",
             text="Model checking + conformance: link-to-file/dir/chain/outside/dangling/cyclic trees; exit 0 => no link created and tree = "
                  "ExpectedFS; dangling or cyclic => non-zero exit.", ref="DESIGN 5 (C13)", note=NS_NOTE),
 "C14": dict(tech="XcpNS special-node operations (probe, unlink, mknod as separate steps) checked by TLC; real runs (root: char devices, "
                  "umask variants) judged by Trace_NS (type, device number, mode & ~umask)",
             text="Model checking + conformance over node kinds x device numbers x modes x umask x destination state.", ref="DESIGN 5 (C14)",
             note=NS_NOTE + " Needs root (mknod of character devices)."),
 "C16": dict(tech="XcpNS MainValidate (rejection decided before any file-system action; invariant InvC16) checked by TLC; real runs with a "
                  "whole-sandbox before/after comparison judged by Trace_NS",
             text="Model checking + conformance over rejection class x argument position x destination state x driver.", ref="DESIGN 5 (C16)",
             note=NS_NOTE),
}
DP_NOTE = ("Trusted: the libfs hooks (they only shorten requests / force errno / emulate a clone, they never report), the kernel's "
           "copy_file_range/lseek/FIEMAP semantics as abstracted in XcpData.tla, the cell-pattern reader. Bounds: files of <= 4 (quick) / 6 "
           "(thorough) cells in the exhaustive model; conformance covers what is run.")
CHECKS.update({
 "C01": dict(tech="TLA+ model XcpData (create/allocate/clone/seek walk/extent->block jobs, every kernel count, any job order) checked by TLC; "
                  "TLC-enumerated initial states replayed into the real binary, destination cells judged by the TLC trace spec Trace_Data; traced runs "
                  "replayed as XcpData actions (TraceA_Data); block-partition and retry-loop arithmetic as unbounded inductive invariants (Apalache)",
             text="Exhaustive model checking of the single-file copy design and spec-to-implementation replay of its scenario space "
                  "(layout x block size x driver x reflink x prior destination) plus byte-granular block-boundary sizes; thorough adds a 2 GiB+ file.",
             ref="DESIGN 5 (C01)", note=DP_NOTE),
 "C05": dict(tech="XcpData with nondeterministic short counts at every call and user-space fallback, checked by TLC; real runs with clamp/errno "
                  "plans driven through the cfg(xcp_verif) hooks (and strace for EINTR), plus the build without the Linux backend; judged by Trace_Data",
             text="Model checking over every legal short-count sequence within bounds + conformance under systematic and seeded clamp plans.",
             ref="DESIGN 5 (C05)", note=DP_NOTE),
 "C11": dict(tech="TLC invariant HolesStayHoles on XcpData + real sparse copies (1 MiB cells, >32 extents, pre-allocated destinations) with "
                  "st_blocks / SEEK_DATA maps judged by Trace_Data (allocation, containment, growth form)",
             text="Model checking of destination allocation in every state + conformance on real sparse files on ext4.", ref="DESIGN 5 (C11)",
             note=DP_NOTE + " Needs a filesystem with SEEK_DATA/SEEK_HOLE and FIEMAP (ext4 here)."),
 "C19": dict(tech="merge_extents transcribed to TLA+ (XcpMerge) and checked by TLC on ALL sorted extent lists within bounds; every list replayed "
                  "into the real function through the API probe; map_extents/segment walks on real files; all judged by the TLC trace spec Trace_Merge",
             text="Exhaustive (bounded) model checking of the merge contract and exhaustive replay of the same lists into the implementation; "
                  "file-level coverage oracle (no non-zero byte outside reported ranges).", ref="DESIGN 5 (C19)",
             note="Trusted: the probe crate (thin calls of the public libfs API), the non-zero-run scanner. Bounds: offsets 0..8/10, <= 3/4 extents."),
})
CP_NOTE = ("Trusted: strace/ptrace as the observer (entry and exit of a call are separate events; log order is consistent with program and "
           "synchronisation order) and as the fault/delay/kill driver; the strace-to-event translator; the kernel. Bounds of the exhaustive part: "
           "5 operations (2 files of 2 and 1 blocks), W=2 (3 for parfile in thorough), pool queue Q=1 (2), one fault per behaviour. Schedules of "
           "the real program are perturbed (workers 1..64, seeded delays), not enumerated.")
CHECKS.update({
 "C04": dict(tech="TLC on XcpParfile/XcpParblock: all interleavings x every single fault point, invariant ExitZeroComplete (+ non-vacuity with the "
                  "deviations FinSwallow/LinkIgnored); single-fault campaign on the real binary via strace injection, judged by TLC trace specs "
                  "(Trace_NS tree, Trace_Meta metadata, Trace_Ev fsync)",
             text="Model checking of 'exit 0 => complete' over all interleavings and fault points of the design + fault enumeration at every per-thread "
                  "call index of the real program.", ref="DESIGN 5 (C04)", note=CP_NOTE),
 "C06": dict(tech="TLC on XcpParfile/XcpParblock (exit status a function of the scenario; MetaAfterLastWrite; directory before child in XcpNS) + "
                  "repeated perturbed real runs judged by TLC: Trace_Det (all runs agree) and Trace_Ev (metadata after the last write)",
             text="Exhaustive interleaving exploration of the design; conformance by perturbation (workers 1..64, seeded delays, both drivers).",
             ref="DESIGN 5 (C06)", note=CP_NOTE),
 "C07": dict(tech="TLC liveness (Termination, ChannelCloses under weak fairness) + deadlock check on XcpParfile/XcpParblock/XcpData with every single "
                  "fault; real runs (FIFOs, sockets, empty trees, mid-run failures) under a wall-clock bound; library probe: copy() returns, channel closes",
             text="Model checking of termination under fairness for all interleavings and fault points; bounded-time conformance runs.",
             ref="DESIGN 5 (C07)", note=CP_NOTE + " A hang is detected as 'not finished within 25 s (quick) / 90 s (thorough)' where fault-free runs take < 0.5 s."),
 "C09": dict(tech="TLA+ model XcpBackup (rename/create/write as separate steps, every state a kill point) checked by TLC; TLC-enumerated histories "
                  "replayed step by step into the real binary (plain, accented, non-UTF-8 names) + SIGKILL campaign; listings judged by Trace_Backup",
             text="Exhaustive model checking of histories <= 3/4 copies x names x modes x seeds, spec-to-implementation replay of a seeded sample (all in "
                  "thorough) and kill-point enumeration of an overwrite.", ref="DESIGN 5 (C09)", note=NS_NOTE),
 "C10": dict(tech="TLC on XcpFinal (finalisation order against the kernel's chown rule) and on the control planes (MetaAfterLastWrite); real copies of "
                  "hundreds of modes x mtimes x xattrs x owners x flag combinations, per-file records judged by the TLC trace spec Trace_Meta",
             text="Model checking of the ordering argument + conformance over the attribute space (all 4096 modes in thorough).", ref="DESIGN 5 (C10)",
             note=CP_NOTE + " Needs root (ownership, arbitrary modes)."),
 "C12": dict(tech="TLC invariants PrefixOK / ChannelCloses on the control planes and XcpChan (ChannelUpdater batching); update streams recorded through "
                  "the API probe (client-supplied, channel and no-op updaters; hook clamps; injected faults; bytes transferred from strace) judged by the "
                  "TLC trace spec Trace_Status",
             text="Model checking of the stream invariants over all interleavings + trace validation of recorded streams.", ref="DESIGN 5 (C12)",
             note=CP_NOTE + " The recording updater linearises send() calls under its own mutex; its delay inside send(Size) is sound (DESIGN 5 C12)."),
 "C15": dict(tech="TLC invariants NeverClones/AlwaysClones/CloneBeforeData/AutoFallsBack on XcpData; strace logs of real runs with the clone answered by "
                  "the real filesystem, each unsupported errno, hard errors, or emulated success (hooks), judged by the TLC monitor Trace_Ev (+Trace_NS)",
             text="Model checking + trace validation of system-call order per destination object.", ref="DESIGN 5 (C15)",
             note=DP_NOTE + " No reflink-capable filesystem here: the success path is an emulated clone."),
 "C17": dict(tech="git's ignore semantics transcribed to TLA+ (XcpGitignore), sanity laws checked by TLC over all pattern lists of the grammar, "
                  "cross-checked against `git check-ignore`; each list replayed into xcp, copied set judged by the TLC trace spec Trace_GI",
             text="Exhaustive (bounded) enumeration of pattern lists with the oracle function evaluated by TLC; spec-to-implementation replay.",
             ref="DESIGN 5 (C17)", note="Trusted: git 2.39 as the reference for the transcription (re-checked every run); the directory walker. "
                  "Bounds: <= 2 pattern lines over {a, b, .}, one 20-entry tree."),
 "C18": dict(tech="TLC invariants SyncAfterWrites / MetaAfterLastWrite on the control planes; strace logs of --fsync runs (multi-block files, workers "
                  "1..16, 900+ two-block files, seeded delays) judged by the TLC monitor Trace_Ev",
             text="Model checking over all block-completion orders + trace validation: a successful fsync entered after the exit of the last write.",
             ref="DESIGN 5 (C18)", note=CP_NOTE + " Durability itself is not observable, only the call and its position."),
 "C20": dict(tech="TLC invariant OpenBound on both control planes (back-pressure: DispQueue disabled on a full queue); traced runs on trees of N and 4N "
                  "files with slowed workers under RLIMIT_NOFILE=1024, judged by Trace_Ev (success, peak of open descriptors does not grow)",
             text="Model checking of the open-handle bound + conformance on large trees.", ref="DESIGN 5 (C20)", note=CP_NOTE),
})
hooks_commits = subprocess.run(["git", "-C", "/repo", "log", "--format=%h", "--grep=^verif hooks"], stdout=subprocess.PIPE, text=True).stdout.split()
m = {"version": 1,
     "setup_cmd": "cd /verif && python3 tools/setup.py",
     "hooks": {"guard": "--cfg xcp_verif",
               "enable": "RUSTFLAGS='--cfg xcp_verif --check-cfg cfg(xcp_verif)' cargo build --offline  (target dir /verif/build/hooks; done by every check)",
               "baseline_off_cmd": "/verif/tools/baseline.sh",
               "source_commits": hooks_commits, "add_only": True},
     "engines": [{"name": "tlc", "path": "/verif/spec", "serves_properties": sorted(CHECKS), "kind_free_text":
                  "TLA+ specification (Layer A design models, Layer B contract/trace specs) checked with TLC; harness in /verif/harness"}],
     "checks": [], "not_applicable": [],
     "notes": "All checks: ./check <id> --tier quick|thorough. See DESIGN.md."}
for p in props:
    i = p["id"]
    if i in CHECKS:
        c = CHECKS[i]
        m["checks"].append({"property_id": i, "quick_cmd": "./check %s --tier quick" % i, "thorough_cmd": "./check %s --tier thorough" % i,
                            "evidence_file": "/verif/evidence/%s.json" % i, "replay_cmd_template": "./check %s --replay {path}" % i,
                            "engine": "tlc", "level_claimed": {"category": "model_checking", "text": c["text"], "design_ref": c["ref"]},
                            "level_note": c["note"], "technique": c["tech"]})
    else:
        m["not_applicable"].append({"property_id": i, "reason": "not claimed"})
json.dump(m, open(os.path.join(V, "MANIFEST.json"), "w"), indent=1)
print("checks:", len(m["checks"]), "n/a:", len(m["not_applicable"]))
