#!/usr/bin/env python3
"""Regenerates /verif/MANIFEST.json from the table below (single source of truth for the interface)."""
import json, os, subprocess
V = os.path.dirname(os.path.dirname(os.path.abspath(__file__)))
props = [json.loads(l) for l in open(os.path.join(V, "properties.jsonl"))]

NS_NOTE = ("Trusted: the kernel's path resolution as transcribed in XcpFS.tla; strace/ptrace for kill and fault delivery; the snapshot "
           "walker (lstat/readlink/xattr/content hash). The exhaustive TLC result is bounded by the scenario set (trees of <= ~20 entries).")
CHECKS = {
 "C02": dict(tech="TLA+ model (XcpFS/XcpNS: validation, walker, workers in any order) checked by TLC on every scenario; the same scenarios "
                  "executed on the real binary (both drivers) and the whole-sandbox snapshot judged by the TLC trace spec Trace_NS",
             text="Exhaustive model checking of the name-space design over a structured + seeded scenario family, and spec-to-implementation "
                  "conformance: every scenario is run on the binary rebuilt from /repo and TLC evaluates exit=0 => tree = ExpectedFS(scenario).",
             ref="DESIGN 3, 5 (C02)", note=NS_NOTE),
 "C03": dict(tech="TLC invariant InvC03 on XcpNS (every state = every kill point) + real runs under alias spellings, SIGKILL at each mutating "
                  "syscall and single injected faults (strace), snapshots judged by Trace_NS",
             text="Model checking of 'protected entries never change' in every reachable state of the design, plus kill-point and fault "
                  "enumeration on the real binary with TLC judging each before/after snapshot (content, kind, mode, mtime, owner, xattrs, inode).",
             ref="DESIGN 5 (C03)", note=NS_NOTE),
 "C08": dict(tech="TLC invariant InvC08 over all interleavings of the walker probe with queued operations + real runs (workers 1..16, repeated "
                  "racy layouts) judged by Trace_NS",
             text="Model checking of the no-clobber design over all walker/worker interleavings; conformance runs on pre-populated destinations "
                  "with collisions of every kind and position; TLC compares every pre-existing entry bit for bit and requires a non-zero exit.",
             ref="DESIGN 5 (C08)", note=NS_NOTE),
 "C13": dict(tech="XcpNS walk with dereference (canonicalisation, followed links, loop detection) checked by TLC; real runs judged by Trace_NS",
             text="Model checking + conformance: link-to-file/dir/chain/outside/dangling/cyclic trees; exit 0 => no link created and tree = "
                  "ExpectedFS; dangling or cyclic => non-zero exit.", ref="DESIGN 5 (C13)", note=NS_NOTE),
 "C14": dict(tech="XcpNS special-node operations (probe, unlink, mknod as separate steps) checked by TLC; real runs (root: char devices, "
                  "umask variants) judged by Trace_NS (type, device number, mode & ~umask)",
             text="Model checking + conformance over node kinds x device numbers x modes x umask x destination state.", ref="DESIGN 5 (C14)",
             note=NS_NOTE + " Needs root (mknod of character devices)."),
 "C16": dict(tech="XcpNS MainValidate (rejection decided before any file-system action; invariant InvC16) checked by TLC; real runs with a "
                  "whole-sandbox before/after comparison judged by Trace_NS",
             text="Model checking + conformance over rejection class x argument position x destination state x driver.", ref="DESIGN 5 (C16)",
             note=NS_NOTE),
}
DP_NOTE = ("Trusted: the libfs hooks (they only shorten requests / force errno / emulate a clone, they never report), the kernel's "
           "copy_file_range/lseek/FIEMAP semantics as abstracted in XcpData.tla, the cell-pattern reader. Bounds: files of <= 4 (quick) / 6 "
           "(thorough) cells in the exhaustive model; conformance covers what is run.")
CHECKS.update({
 "C01": dict(tech="TLA+ model XcpData (create/allocate/clone/seek walk/extent->block jobs, every kernel count, any job order) checked by TLC; "
                  "TLC-enumerated initial states replayed into the real binary, destination cells judged by the TLC trace spec Trace_Data",
             text="Exhaustive model checking of the single-file copy design and spec-to-implementation replay of its scenario space "
                  "(layout x block size x driver x reflink x prior destination) plus byte-granular block-boundary sizes; thorough adds a 2 GiB+ file.",
             ref="DESIGN 5 (C01)", note=DP_NOTE),
 "C05": dict(tech="XcpData with nondeterministic short counts at every call and user-space fallback, checked by TLC; real runs with clamp/errno "
                  "plans driven through the cfg(xcp_verif) hooks (and strace for EINTR), plus the build without the Linux backend; judged by Trace_Data",
             text="Model checking over every legal short-count sequence within bounds + conformance under systematic and seeded clamp plans.",
             ref="DESIGN 5 (C05)", note=DP_NOTE),
 "C11": dict(tech="TLC invariant HolesStayHoles on XcpData + real sparse copies (1 MiB cells, >32 extents, pre-allocated destinations) with "
                  "st_blocks / SEEK_DATA maps judged by Trace_Data (allocation, containment, growth form)",
             text="Model checking of destination allocation in every state + conformance on real sparse files on ext4.", ref="DESIGN 5 (C11)",
             note=DP_NOTE + " Needs a filesystem with SEEK_DATA/SEEK_HOLE and FIEMAP (ext4 here)."),
 "C19": dict(tech="merge_extents transcribed to TLA+ (XcpMerge) and checked by TLC on ALL sorted extent lists within bounds; every list replayed "
                  "into the real function through the API probe; map_extents/segment walks on real files; all judged by the TLC trace spec Trace_Merge",
             text="Exhaustive (bounded) model checking of the merge contract and exhaustive replay of the same lists into the implementation; "
                  "file-level coverage oracle (no non-zero byte outside reported ranges).", ref="DESIGN 5 (C19)",
             note="Trusted: the probe crate (thin calls of the public libfs API), the non-zero-run scanner. Bounds: offsets 0..8/10, <= 3/4 extents."),
})
hooks_commits = subprocess.run(["git", "-C", "/repo", "log", "--format=%h", "--grep=^verif hooks"], stdout=subprocess.PIPE, text=True).stdout.split()
m = {"version": 1,
     "setup_cmd": "cd /verif && python3 tools/setup.py",
     "hooks": {"guard": "--cfg xcp_verif",
               "enable": "RUSTFLAGS='--cfg xcp_verif --check-cfg cfg(xcp_verif)' cargo build --offline  (target dir /verif/build/hooks; done by every check)",
               "baseline_off_cmd": "/verif/tools/baseline.sh",
               "source_commits": hooks_commits, "add_only": True},
     "engines": [{"name": "tlc", "path": "/verif/spec", "serves_properties": sorted(CHECKS), "kind_free_text":
                  "TLA+ specification (Layer A design models, Layer B contract/trace specs) checked with TLC; harness in /verif/harness"}],
     "checks": [], "not_applicable": [],
     "notes": "All checks: ./check <id> --tier quick|thorough. See DESIGN.md."}
for p in props:
    i = p["id"]
    if i in CHECKS:
        c = CHECKS[i]
        m["checks"].append({"property_id": i, "quick_cmd": "./check %s --tier quick" % i, "thorough_cmd": "./check %s --tier thorough" % i,
                            "evidence_file": "/verif/evidence/%s.json" % i, "replay_cmd_template": "./check %s --replay {path}" % i,
                            "engine": "tlc", "level_claimed": {"category": "model_checking", "text": c["text"], "design_ref": c["ref"]},
                            "level_note": c["note"], "technique": c["tech"]})
    else:
        m["not_applicable"].append({"property_id": i, "reason": "check not built yet (work in progress, see DESIGN.md section 9)"})
json.dump(m, open(os.path.join(V, "MANIFEST.json"), "w"), indent=1)
print("checks:", len(m["checks"]), "n/a:", len(m["not_applicable"]))
