#!/usr/bin/env python3
"""Re-runs the archived seeded changes against the CURRENT tree (3-way applying each patch) and reports which check exits 1.
usage: tools/run_seeded.py [--only substr] [--jobs N]     (writes seeded/RESULTS.json; long: ~2-4 min per change)"""
import json, os, subprocess, sys, glob, shutil, tempfile, concurrent.futures as cf
V = os.path.dirname(os.path.dirname(os.path.abspath(__file__)))
INDEX = json.load(open(os.path.join(V, "seeded", "INDEX.json")))

def one(item):
    name, checks = item["change"], item["checks"]
    patch = os.path.join(V, "seeded", name, "patch.diff")
    wt = tempfile.mkdtemp(prefix="xcp-seedrun.", dir="/var/tmp")
    res = {"change": name, "checks": {}}
    try:
        subprocess.run(["git", "-C", "/repo", "worktree", "add", "-q", "--detach", os.path.join(wt, "repo"), "HEAD"], check=True)
        r = subprocess.run(["git", "apply", "--3way", "--whitespace=nowarn", patch], cwd=os.path.join(wt, "repo"), capture_output=True, text=True)
        if r.returncode != 0:
            res["status"] = "does-not-apply-to-HEAD"; return res
        subprocess.run(["git", "diff", "HEAD"], cwd=os.path.join(wt, "repo"), stdout=open(os.path.join(wt, "p.diff"), "w"))
        env = dict(os.environ, XCP_REPO=os.path.join(wt, "repo"), XCP_VERIF_BUILD=os.path.join(wt, "build"), XCP_VERIF_EVID=os.path.join(wt, "evid"))
        for c in checks:
            p = subprocess.run([os.path.join(V, "check"), c], env=env, capture_output=True, text=True)
            res["checks"][c] = p.returncode
        res["status"] = "caught" if any(v == 1 for v in res["checks"].values()) else "MISSED"
        return res
    finally:
        subprocess.run(["git", "-C", "/repo", "worktree", "remove", "--force", os.path.join(wt, "repo")], capture_output=True)
        subprocess.run(["rm", "-rf", wt])

def main():
    only = sys.argv[sys.argv.index("--only") + 1] if "--only" in sys.argv else ""
    jobs = int(sys.argv[sys.argv.index("--jobs") + 1]) if "--jobs" in sys.argv else 2
    items = [i for i in INDEX if only in i["change"]]
    if "--check" in sys.argv:             # only the changes whose listed checks include one of these (comma separated)
        want = set(sys.argv[sys.argv.index("--check") + 1].split(","))
        items = [i for i in items if want & set(i["checks"])]
        only = only or "partial"
    out = []
    with cf.ThreadPoolExecutor(max_workers=jobs) as ex:
        for r in ex.map(one, items):
            print(r["change"], r.get("status"), r["checks"], flush=True)
            out.append(r)
    path = os.path.join(V, "seeded", "RESULTS.json")
    if only and os.path.exists(path):      # partial run: merge into the previous results
        new = {r["change"]: r for r in out}
        out = [new.pop(r["change"], r) for r in json.load(open(path))] + list(new.values())
    json.dump(out, open(path, "w"), indent=1)
main()
