#!/usr/bin/env python3
"""Run checks against a patched copy of the repository (self-validation; nothing is written to /repo or to evidence/).
usage: tools/mutant.py <patch.diff> <Cxx> [<Cyy> ...] [--tier quick|thorough] [--keep]
prints one line per check:  <id> exit=<rc> caught=<yes|no>"""
import os, shutil, subprocess, sys, tempfile
VERIF = os.path.dirname(os.path.dirname(os.path.abspath(__file__)))
def main():
    args = [a for a in sys.argv[1:] if not a.startswith("--")]
    tier = "quick"
    if "--tier" in sys.argv:
        tier = sys.argv[sys.argv.index("--tier") + 1]; args.remove(tier)
    patch, props = os.path.abspath(args[0]), args[1:]
    work = tempfile.mkdtemp(prefix="xcp-mut.", dir="/var/tmp")
    rc_all = 0
    try:
        repo = os.path.join(work, "repo")
        subprocess.check_call(["rsync", "-a", "--exclude", "/target", "--exclude", "/.git", "/repo/", repo + "/"])
        if patch != "/dev/null" and os.path.getsize(patch) > 0:
            subprocess.check_call(["git", "apply", "--whitespace=nowarn", patch], cwd=repo)
        env = dict(os.environ, XCP_REPO=repo, XCP_VERIF_BUILD=os.path.join(work, "build"), XCP_VERIF_EVID=os.path.join(work, "evid"),
                   VERIF_TIER=tier)
        for p in props:
            r = subprocess.run([os.path.join(VERIF, "check"), p, "--tier", tier], env=env, stdout=subprocess.PIPE, stderr=subprocess.STDOUT, text=True)
            lines = [l for l in r.stdout.splitlines() if l.startswith(("VIOLATION", "KNOWN-FINDING", "  ->", "TOOL ERROR", "MODEL-DRIFT")) or " quick: " in l or " thorough: " in l]
            print("%s exit=%d caught=%s" % (p, r.returncode, "yes" if r.returncode == 1 else "no"))
            for l in lines[:8]:
                print("    " + l)
            if r.returncode == 2:
                print(r.stdout[-1500:])
    finally:
        if "--keep" not in sys.argv:
            shutil.rmtree(work, ignore_errors=True)
        else:
            print("kept", work)
main()
