#!/usr/bin/env python3
"""Mechanical mutation testing of the verification machinery (complements the sub-agent rounds, which are biased towards
what an engineer imagines; these are small syntactic changes anywhere in the non-test code).

For each sampled mutant: apply it to a scratch copy of /repo, build; run the repository's own test suite (guard off) - a
mutant the tests kill is of no interest; otherwise run the checks that are relevant to the file (in order, stopping at the
first one that reports a VIOLATION).  Result per mutant: no-compile | killed-by-tests | caught-by:<Cxx> | SURVIVED.

usage: tools/mutate.py [--seed N] [--max N] [--lanes N] [--files f1,f2] [--out seeded/mutation/RESULTS.json]
Scratch copies live under /var/tmp/xcp-mutgen.<lane> and are removed at the end."""
import json, os, random, re, subprocess, sys, shutil, concurrent.futures as cf, threading, time
V = os.path.dirname(os.path.dirname(os.path.abspath(__file__)))
REPO = "/repo"

FILES = {
    "libxcp/src/operations.rs": ["C02", "C04", "C01", "C03", "C08", "C10", "C13", "C14", "C18", "C12", "C16", "C09", "C06", "C11", "C15"],
    "libxcp/src/drivers/parfile.rs": ["C04", "C02", "C07", "C12", "C06", "C14", "C03", "C08", "C20", "C18"],
    "libxcp/src/drivers/parblock.rs": ["C04", "C05", "C02", "C07", "C12", "C06", "C18", "C20", "C14", "C03", "C08", "C01", "C11"],
    "libxcp/src/drivers/mod.rs": ["C02", "C16"],
    "libxcp/src/backup.rs": ["C09", "C03", "C08"],
    "libxcp/src/paths.rs": ["C17", "C02"],
    "libxcp/src/feedback.rs": ["C12", "C04", "C07"],
    "libxcp/src/config.rs": ["C02", "C10", "C18", "C15", "C17", "C05"],
    "libfs/src/linux.rs": ["C05", "C19", "C01", "C11", "C15", "C10", "C14", "C04", "C12"],
    "libfs/src/common.rs": ["C05", "C19", "C01", "C10", "C14", "C11", "C04", "C02", "C12", "C03", "C16"],
    "libfs/src/lib.rs": ["C05", "C01"],
    "src/main.rs": ["C16", "C02", "C04", "C03", "C07", "C12"],
    "src/options.rs": ["C16", "C02", "C15", "C09"],
}

OPS = [
    ("rel", r"(?<![<>=!-])<=(?!=)", "<"), ("rel", r"(?<![<>=!-])>=(?!=)", ">"), ("rel", r"(?<=\s)<(?=\s)", "<="), ("rel", r"(?<=\s)>(?=\s)", ">="),
    ("eq", r"==", "!="), ("eq", r"!=", "=="),
    ("bool", r"&&", "||"), ("bool", r"\|\|", "&&"),
    ("neg", r"(?<=[\s(])!(?=[a-zA-Z_(])", ""),
    ("arith", r"(?<=\s)\+ 1\b", "+ 0"), ("arith", r"(?<=\s)- 1\b", "- 0"), ("arith", r"(?<=\s)\+(?=\s)", "-"), ("arith", r"(?<=\s)\*(?=\s)", "+"),
    ("const", r"\btrue\b", "false"), ("const", r"\bfalse\b", "true"), ("const", r"\b0\b", "1"), ("const", r"\b128\b", "100000"),
    ("minmax", r"\bmin\(", "max("), ("minmax", r"\bmax\(", "min("),
    ("swallow", r"^(\s*)([a-zA-Z_][^=;]*\(.*\))\?;\s*$", r"\1let _ = \2;"),
    ("early", r"^(\s*)return Err\(.*\);\s*$", r"\1{}"),
    ("okerr", r"\bis_ok\(\)", "is_err()"), ("okerr", r"\bis_err\(\)", "is_ok()"), ("okerr", r"\bis_some\(\)", "is_none()"), ("okerr", r"\bis_none\(\)", "is_some()"),
    ("delete", r"^(\s*)([a-zA-Z_][a-zA-Z_0-9.:]*\(.*\))(\?)?;\s*$", r"\1"),       # drop a call statement
]

def sites(path):
    """Candidate (line_index, op, new_line) outside tests, comments and the guarded instrumentation."""
    lines = open(os.path.join(REPO, path)).read().split("\n")
    out = []
    skip_next = False
    for i, ln in enumerate(lines):
        st = ln.strip()
        if st.startswith("#[cfg(test)]") or st.startswith("mod tests") or st.startswith("mod test "):
            break
        if "xcp_verif" in ln:
            skip_next = True
            continue
        if skip_next:
            skip_next = False
            continue
        if st.startswith(("//", "*", "/*")) or st.startswith("#[") or st.startswith("use ") or not st or st.startswith(("debug!", "info!", "warn!", "error!", "trace!")):
            continue
        code = ln.split("//")[0]
        for op, pat, rep in OPS:
            for m in re.finditer(pat, code):
                if op in ("swallow", "early", "delete"):
                    new = re.sub(pat, rep, code)
                else:
                    new = code[:m.start()] + m.expand(rep) + code[m.end():]
                if new != code and new.strip() != code.strip():
                    out.append((i, op, new))
                if op in ("swallow", "early", "delete"):
                    break
    return lines, out

LOCK = threading.Lock()

def sh(cmd, cwd=None, env=None, timeout=1500):
    import signal
    p = subprocess.Popen(cmd, cwd=cwd, env=env, stdout=subprocess.PIPE, stderr=subprocess.STDOUT, text=True, start_new_session=True)
    try:
        out, _ = p.communicate(timeout=timeout)
        return p.returncode, out
    except subprocess.TimeoutExpired:
        try:
            os.killpg(p.pid, signal.SIGKILL)
        except OSError:
            pass
        p.communicate()
        return 124, "TIMEOUT"

def reap(repo):
    """A mutant can make a test (or the xcp it spawned) spin for ever; nextest's children outlive the killed process group."""
    import signal
    for pid in os.listdir("/proc"):
        if pid.isdigit():
            try:
                exe = os.readlink("/proc/%s/exe" % pid)
            except OSError:
                continue
            if exe.startswith(repo + "/target/"):
                try:
                    os.kill(int(pid), signal.SIGKILL)
                except OSError:
                    pass

def lane_dir(k):
    return "/var/tmp/xcp-mutgen.%d" % k

def prepare(k):
    d = lane_dir(k)
    subprocess.run(["rm", "-rf", d]); os.makedirs(d)
    subprocess.run(["rsync", "-a", "--exclude", "target", "--exclude", ".git", REPO + "/", d + "/repo/"], check=True)
    env = dict(os.environ); env.pop("RUSTFLAGS", None)
    sh(["cargo", "build", "--offline"], cwd=d + "/repo", env=env)
    sh(["cargo", "nextest", "run", "--workspace", "--offline", "--no-run"], cwd=d + "/repo", env=env)

def run_mutant(k, mut):
    path, i, op, new = mut["file"], mut["line"], mut["op"], mut["new"]
    d = lane_dir(k); repo = d + "/repo"
    orig = open(os.path.join(REPO, path)).read()
    lines = orig.split("\n")
    mut["old"] = lines[i]
    lines[i] = new
    res = dict(mut)
    t0 = time.time()
    try:
        open(os.path.join(repo, path), "w").write("\n".join(lines))
        env = dict(os.environ); env.pop("RUSTFLAGS", None)
        rc, out = sh(["cargo", "build", "--offline"], cwd=repo, env=env)
        if rc != 0:
            res["status"] = "no-compile"; return res
        if re.search(r"^warning: unused|^warning: unreachable|^warning: unnecessary", out, re.M) and op in ("delete",):
            pass
        rc, out = sh([os.path.join(V, "tools/baseline.sh")], env=dict(env, XCP_REPO=repo))
        if rc != 0:
            res["status"] = "killed-by-tests"; return res
        env2 = dict(os.environ, XCP_REPO=repo, XCP_VERIF_BUILD=d + "/build", XCP_VERIF_EVID=d + "/evid")
        res["checks"] = {}
        for c in FILES[path]:
            p = subprocess.run([os.path.join(V, "check"), c], env=env2, stdout=subprocess.PIPE, stderr=subprocess.STDOUT, text=True)
            res["checks"][c] = p.returncode
            if "MODEL-DRIFT" in p.stdout:
                res.setdefault("drift_reported_by", []).append(c)      # advisory: the Layer-A prediction differs (no VIOLATION)
            if p.returncode == 1:
                res["status"] = "caught-by:" + c
                m = re.search(r"^\s*(?:->\s*)?(C\d\d.*)$", p.stdout, re.M)
                res["first_report"] = (m.group(1)[:300] if m else p.stdout[-300:])
                return res
            if p.returncode == 2:
                res.setdefault("tool_errors", []).append((c, p.stdout[-400:]))
        res["status"] = "SURVIVED"
        return res
    finally:
        open(os.path.join(repo, path), "w").write(orig)
        reap(repo)
        res["wall_s"] = round(time.time() - t0, 1)

def main():
    a = sys.argv
    seed = int(a[a.index("--seed") + 1]) if "--seed" in a else 1
    mx = int(a[a.index("--max") + 1]) if "--max" in a else 60
    lanes = int(a[a.index("--lanes") + 1]) if "--lanes" in a else 3
    files = a[a.index("--files") + 1].split(",") if "--files" in a else sorted(FILES)
    outp = a[a.index("--out") + 1] if "--out" in a else os.path.join(V, "seeded", "mutation", "RESULTS.json")
    rnd = random.Random(seed)
    cand = []
    for f in files:
        lines, ss = sites(f)
        for i, op, new in ss:
            cand.append({"file": f, "line": i, "op": op, "new": new})
    rnd.shuffle(cand)
    # stratify: round-robin over files so that every file gets its share
    by = {}
    for c in cand:
        by.setdefault(c["file"], []).append(c)
    pick = []
    while len(pick) < mx and any(by.values()):
        for f in sorted(by):
            if by[f] and len(pick) < mx:
                pick.append(by[f].pop())
    print("candidates: %d, picked %d" % (len(cand), len(pick)), flush=True)
    os.makedirs(os.path.dirname(outp), exist_ok=True)
    prev = json.load(open(outp)) if os.path.exists(outp) else []
    if "--retest-survivors" in a:
        # after the checks were strengthened: run the recorded survivors again (same mutants)
        cpath = os.path.join(V, "seeded", "mutation", "CLASSIFY.json")
        cls = json.load(open(cpath)) if os.path.exists(cpath) else {}
        def again(r):
            if r["status"] != "SURVIVED":
                return False
            c = cls.get("%s:%d:%s" % (r["file"], r["line"] + 1, r["op"]))
            return c is None or not c[0].startswith(("equivalent", "not covered"))      # unclassified, closed gaps, list omissions
        pick = [{k: r[k] for k in ("file", "line", "op", "new")} for r in prev if again(r)]
        prev = [r for r in prev if not again(r)]
    done = {(r["file"], r["line"], r["new"]) for r in prev}
    pick = [p for p in pick if (p["file"], p["line"], p["new"]) not in done]
    with cf.ThreadPoolExecutor(max_workers=lanes) as ex:
        list(ex.map(prepare, range(lanes)))
    results = list(prev)
    q = list(pick)
    def worker(k):
        while True:
            with LOCK:
                if not q:
                    return
                m = q.pop(0)
            r = run_mutant(k, m)
            with LOCK:
                results.append(r)
                print("%-34s L%-4d %-8s %-18s %5.0fs  | %s  =>  %s" % (r["file"], r["line"] + 1, r["op"], r["status"], r["wall_s"], r["old"].strip()[:60], r["new"].strip()[:60]), flush=True)
                json.dump(results, open(outp, "w"), indent=1)
    with cf.ThreadPoolExecutor(max_workers=lanes) as ex:
        list(ex.map(worker, range(lanes)))
    for k in range(lanes):
        subprocess.run(["rm", "-rf", lane_dir(k)])
    from collections import Counter
    print(Counter(r["status"].split(":")[0] for r in results))

main()
