#!/usr/bin/env python3
"""Summarises seeded/mutation/RESULTS.json (tools/mutate.py) with the hand-written classification of the survivors
(seeded/mutation/CLASSIFY.json: "<file>:<line>:<op>" -> [class, why]).  Prints a markdown summary."""
import json, os, sys
from collections import Counter, defaultdict
V = os.path.dirname(os.path.dirname(os.path.abspath(__file__)))
res = json.load(open(os.path.join(V, "seeded/mutation/RESULTS.json")))
cls = json.load(open(os.path.join(V, "seeded/mutation/CLASSIFY.json"))) if os.path.exists(os.path.join(V, "seeded/mutation/CLASSIFY.json")) else {}
# the last entry per mutant wins (retests append)
last = {}
for r in res:
    last[(r["file"], r["line"], r["op"], r["new"])] = r
res = list(last.values())
tot = Counter(r["status"].split(":")[0] for r in res)
print("mutants: %d; do not compile: %d; killed by the repository's tests: %d; reported by a check: %d; survived: %d" %
      (len(res), tot["no-compile"], tot["killed-by-tests"], tot["caught-by"], tot["SURVIVED"]))
by = Counter(r["status"].split(":")[1] for r in res if r["status"].startswith("caught"))
print("first reporting check: " + ", ".join("%s %d" % kv for kv in sorted(by.items())))
surv = [r for r in res if r["status"] == "SURVIVED"]
groups = defaultdict(list)
for r in surv:
    key = "%s:%d:%s" % (r["file"], r["line"] + 1, r["op"])
    c = cls.get(key, ["UNCLASSIFIED", ""])
    groups[c[0]].append((key, r, c[1]))
for g in sorted(groups):
    print("\n%s (%d)" % (g, len(groups[g])))
    for key, r, why in sorted(groups[g], key=lambda t: (t[0], t[1]["new"])):
        print("  - `%s`  `%s` => `%s`%s%s" % (key, r["old"].strip()[:70], r["new"].strip()[:70], (" - " + why) if why else "",
                                             "  [drift reported by %s]" % ",".join(r["drift_reported_by"]) if r.get("drift_reported_by") else ""))
