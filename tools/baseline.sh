#!/bin/bash
# Runs the repository's test suite with the verification guard OFF and checks that
# every test of BASELINE.json's stable_pass list passes.  exit 0 iff all 126 pass.
REPO=${XCP_REPO:-/repo}
cd "$REPO" || exit 2
unset RUSTFLAGS
OUT=$(mktemp /var/tmp/xcp-baseline.XXXXXX)
cargo nextest run --workspace --no-fail-fast --offline --test-threads 8 >"$OUT" 2>&1
python3 - "$OUT" <<'PY'
import json,re,sys
base=json.load(open('/root/.vp/BASELINE.json'))
want=set(base['stable_pass'])
txt=open(sys.argv[1],errors='replace').read()
passed=set()
failed=set()
for m in re.finditer(r'^\s+(PASS|FAIL|SIGABRT|TIMEOUT|LEAK)\s+\[[^\]]*\]\s+(?:\(\s*\d+/\d+\)\s+)?(\S+)\s+(\S+)$',txt,re.M):
    st,binid,name=m.groups()
    crate=binid.split('::')[0]
    full=f"{binid}::{name}" if '::' in binid else f"{binid}::{name}"
    (passed if st=='PASS' else failed).add(full)
missing=sorted(w for w in want if w not in passed)
print(f"passed={len(passed)} failed={len(failed)} baseline_missing={len(missing)}")
for m in missing[:40]: print("  MISSING", m)
sys.exit(0 if not missing else 1)
PY
rc=$?
[ $rc -ne 0 ] && tail -40 "$OUT"
rm -f "$OUT"
exit $rc
