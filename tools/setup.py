#!/usr/bin/env python3
"""setup_cmd: build xcp (hooks on) and the probe from /repo, offline; warm the JVM/TLC parse of the specs."""
import os, sys
sys.path.insert(0, os.path.join(os.path.dirname(os.path.dirname(os.path.abspath(__file__))), "harness"))
from xv import build
print("xcp:", build.xcp())
try:
    print("probe:", build.probe())
except Exception as e:
    print("probe not built:", e)
