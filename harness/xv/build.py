"""Rebuild xcp (verification hooks on) and the API probe from the repository's current working tree."""
import fcntl, os, subprocess, time
from .common import REPO, BUILD, VERIF, ToolError, log

RUSTFLAGS = "--cfg xcp_verif --check-cfg cfg(xcp_verif)"

def _env():
    e = dict(os.environ)
    e["RUSTFLAGS"] = RUSTFLAGS
    e["CARGO_NET_OFFLINE"] = "true"
    e.pop("CARGO_TARGET_DIR", None)
    return e

def _run(cmd, cwd, target):
    e = _env()
    e["CARGO_TARGET_DIR"] = target
    t0 = time.time()
    p = subprocess.run(cmd, cwd=cwd, env=e, stdout=subprocess.PIPE, stderr=subprocess.STDOUT, text=True)
    if p.returncode != 0:
        raise ToolError("build failed: %s\n%s" % (" ".join(cmd), p.stdout[-4000:]))
    return time.time() - t0

def _locked(fn):
    os.makedirs(BUILD, exist_ok=True)
    with open(os.path.join(BUILD, ".lock"), "w") as lk:
        fcntl.flock(lk, fcntl.LOCK_EX)
        return fn()

def xcp(fallback=False):
    """Path of the xcp binary built from REPO's working tree with hooks enabled."""
    def go():
        if fallback:
            # The workspace's own manifests keep libfs' default feature (use_linux) switched on whatever is passed on the
            # command line, so "the build without the Linux backend" is made from a copy whose path dependencies say
            # default-features = false; nothing else differs from the working tree.
            import re, subprocess
            src = os.path.join(BUILD, "fallback-src")
            os.makedirs(src, exist_ok=True)
            subprocess.run(["rsync", "-a", "--delete", "--exclude", "/target", "--exclude", "/.git", REPO + "/", src + "/"], check=True)
            for rel in ("Cargo.toml", "libxcp/Cargo.toml"):
                mp = os.path.join(src, rel)
                txt = open(mp).read()
                txt2 = re.sub(r'^(lib(?:fs|xcp) = \{[^}]*path = "[^"]*")( \})', r'\1, default-features = false\2', txt, flags=re.M)
                if txt2 == txt:
                    raise ToolError("could not switch off default features in " + rel)
                open(mp, "w").write(txt2)
            target = os.path.join(BUILD, "hooks-fallback")
            _run(["cargo", "build", "--offline", "--no-default-features", "--features", "parblock"], src, target)
        else:
            target = os.path.join(BUILD, "hooks")
            _run(["cargo", "build", "--offline"], REPO, target)
        return os.path.join(target, "debug", "xcp")
    return _locked(go)

def probe():
    """Path of the API probe binary (links libxcp/libfs from REPO)."""
    def go():
        import shutil
        tmpl = os.path.join(VERIF, "probe")
        src = os.path.join(BUILD, "probe-src")
        # the probe depends on REPO by path: keep a generated copy of the crate next to the build output
        os.makedirs(os.path.join(src, "src"), exist_ok=True)
        for fn in os.listdir(os.path.join(tmpl, "src")):
            a, b = os.path.join(tmpl, "src", fn), os.path.join(src, "src", fn)
            if not os.path.exists(b) or open(a).read() != open(b).read():
                shutil.copy(a, b)
        man = open(os.path.join(tmpl, "Cargo.toml.in")).read().replace("@REPO@", REPO)
        mp = os.path.join(src, "Cargo.toml")
        if not os.path.exists(mp) or open(mp).read() != man:
            open(mp, "w").write(man)
        shutil.copy(os.path.join(REPO, "Cargo.lock"), os.path.join(src, "Cargo.lock"))
        target = os.path.join(BUILD, "probe")
        _run(["cargo", "build", "--offline"], src, target)
        return os.path.join(target, "debug", "xcp-probe")
    return _locked(go)
