"""Name-space plane: scenario families, real runs, observations for Trace_NS (properties C02 C03 C08 C13 C14 C16)."""
from .common import rmtree as _rmtree
import itertools, json, os, shutil
from . import fsmat, runner, tlc
from .common import scratch, rng, log

# ------------------------------------------------------------------ scenario construction
def E(p, k, c="", lt=None, h=0, **meta):
    p = p.split("/") if isinstance(p, str) else list(p)
    if k == "link":
        lt = c.split("/") if isinstance(c, str) else list(c)
        if lt and lt[0] == "":            # absolute spelling "/x/y" means sandbox-absolute
            lt = ["/ABS"] + lt[1:]
        c = "/".join(lt)
    d = {"p": p, "k": k, "c": c, "lt": lt or [], "h": h, "meta": dict(meta)}
    return d

def A(spelling):
    """A command-line path spelling -> arg record. '/ABS/x' = absolute path inside the sandbox."""
    trail = spelling.endswith("/") and spelling != "/"
    parts = [c for c in spelling.split("/")]
    norm = []
    for i, c in enumerate(parts):
        if c == "":
            continue
        if c == "." and norm:
            continue
        norm.append(c)
    if spelling.startswith("/ABS"):
        pass
    return {"norm": norm, "trail": trail, "raw": spelling}

def SC(id, fs0, sources, dest, r=True, T=False, n=False, L=False, tdir=False, glob=None, extra=None, cls=""):
    return {"id": id, "fs0": fs0, "sources": [A(s) if isinstance(s, str) else s for s in sources],
            "dest": A(dest) if isinstance(dest, str) else dest, "r": r, "T": T, "n": n, "L": L,
            "tdir": tdir, "glob": glob or [], "extra": extra or [], "cls": cls}

def tree(prefix, shape):
    """shape: dict name -> 'F<n>' | ('link', text) | ('fifo',) | dict (subdir).  Returns entries incl. the root dir."""
    out = [E(prefix, "dir")]
    def rec(base, sh):
        for name, v in sh.items():
            p = base + "/" + name
            if isinstance(v, dict):
                out.append(E(p, "dir")); rec(p, v)
            elif isinstance(v, tuple):
                if v[0] == "link": out.append(E(p, "link", v[1]))
                elif v[0] in ("chr", "blk"): out.append(E(p, v[0], "%d:%d" % (v[1], v[2])))
                else: out.append(E(p, v[0]))
            else:
                out.append(E(p, "file", v))
    rec(prefix, shape)
    return out

# ------------------------------------------------------------------ families
SRC_TREES = {
    "flat": {"a": "F1", "b": "F2"},
    "nested": {"a": "F1", "d": {"b": "F2", "e": {}}, "z": "E"},
    "links": {"a": "F1", "l": ("link", "a"), "dl": ("link", "nowhere"), "al": ("link", "/s/a"), "d": {"up": ("link", "../a")}},
    "deep": {"d": {"d": {"d": {"a": "F3"}}}},
    # link texts that are not in normal form: "identical target text" means byte for byte (trailing slash, "//", "/./", "x/..")
    "linktext": {"a": "F1", "e": {}, "t1": ("link", "e/"), "t2": ("link", ".//a"), "t3": ("link", "e/./../a"), "t4": ("link", "./nowhere/")},
    "empty": {},
    "hidden": {".h": "F4", ".d": {"x": "F5"}},
}

def dest_states(src_shape):
    """name -> entries of the destination area 'd' before the run"""
    prior = {}
    def older(sh):
        o = {}
        for k, v in sh.items():
            if isinstance(v, dict): o[k] = older(v)
            elif isinstance(v, tuple): o[k] = v
            else: o[k] = "G" + v[1:] if v != "E" else "G9"          # same names, different content
        return o
    return {
        "absent": [],
        "emptydir": [E("d", "dir")],
        "unrelated": tree("d", {"keep": "F7", "kd": {"k2": "F8"}}),
        "earlier": tree("d", {"s": older(src_shape), "keep": "F7"}),
        "file": [E("d", "file", "F9")],
    }

def family_mapping(rnd, tier):
    """C02: sources x destination state x flags x spelling."""
    out = []
    n = 0
    for tname, shape in SRC_TREES.items():
        src = tree("s", shape)
        for dname, dst in dest_states(shape).items():
            for flags in ({}, {"T": True}, {"tdir": True}):
                if dname == "earlier" and "links" in tname and not flags.get("T"):
                    pass
                for sp in ("s", "./s", "s/", "/ABS/s"):
                    if tier == "quick" and sp != "s" and rnd.random() < 0.6:
                        continue
                    if flags.get("tdir") and dname in ("absent", "file"):
                        continue
                    dsp = rnd.choice(["d", "d/", "./d", "/ABS/d"]) if sp != "s" else "d"
                    n += 1
                    out.append(SC("map-%s-%s-%s-%d" % (tname, dname, "".join(sorted(flags)) or "plain", n),
                                  src + dst + [E("by", "file", "F6")], [sp], dsp, cls="mapping", **flags))
    # re-copies over an earlier copy with numbered / auto backups (some files already have backups, with gaps)
    for bmode in ("numbered", "auto"):
        for tname in ("flat", "nested"):
            shape = SRC_TREES[tname]
            older = dest_states(shape)["earlier"]
            extra_b = [E("d/s/a.~3~", "file", "G7"), E("d/s/a.~1~", "file", "G8")]
            n += 1
            out.append(SC("map-backup-%s-%s-%d" % (bmode, tname, n), tree("s", shape) + older + extra_b + [E("by", "file", "F6")], ["s"], "d",
                          extra=["--backup", bmode], cls="mapping"))
        n += 1
        out.append(SC("map-backup-%s-file-%d" % (bmode, n), [E("f", "file", "F1"), E("d", "file", "G1"), E("d.~2~", "file", "G2")], ["f"], "d", r=False,
                      extra=["--backup", bmode], cls="mapping"))
    # single files, two sources, earlier-copy with -T (re-copy over the same tree)
    for dname in ("absent", "emptydir", "unrelated", "file"):
        dst = dest_states({})[dname]
        n += 1
        out.append(SC("map-file-%s-%d" % (dname, n), [E("f", "file", "F1")] + dst, ["f"], "d", r=False, cls="mapping"))
        n += 1
        out.append(SC("map-filelink-%s-%d" % (dname, n), [E("f", "file", "F1"), E("lf", "link", "f")] + dst, ["lf"], "d", r=False, cls="mapping"))
    for shape in (SRC_TREES["nested"], SRC_TREES["links"]):
        src = tree("s", shape) + tree("t", {"q": "F2", "r": {"w": "F3"}}) + [E("f", "file", "F5")]
        for dname in ("emptydir", "unrelated", "earlier"):
            n += 1
            out.append(SC("map-multi-%s-%d" % (dname, n), src + dest_states(shape)[dname], ["s", "t", "f"], "d", cls="mapping"))
        n += 1
        out.append(SC("map-recopyT-%d" % n, src + tree("d", shape), ["s"], "d", T=True, cls="mapping"))
    # a source that is a relative link to a directory, into a destination that has a directory of the link target's name:
    # the link is copied as a link; nothing may be written through it into the unrelated destination directory
    rl = tree("real", {"a": "F1", "sd": {"b": "F2"}}) + [E("ln", "link", "real")] + tree("d", {"real": {"a": "G1", "keep": "F7"}, "other": "F8"}) + [E("by", "file", "F6")]
    n += 1; out.append(SC("map-rootlink-rel-populated-%d" % n, rl, ["ln"], "d", cls="mapping"))
    n += 1; out.append(SC("map-rootlink-rel-populated-slash-%d" % n, rl, ["ln"], "d/", cls="mapping"))
    # an entry of another kind already sits at the mapped path (left by an earlier copy made when the name meant something else)
    conflicts = {
        "emptydir-onto-file": ({"e": {}, "a": "F1"}, {"e": "G1"}),
        "emptydir-onto-dangling": ({"e": {}, "a": "F1"}, {"e": ("link", "nowhere")}),
        "emptydir-onto-fifo": ({"e": {}, "a": "F1"}, {"e": ("fifo",)}),
        "dir-onto-file": ({"e": {"x": "F2"}}, {"e": "G1"}),
        "file-onto-dir": ({"e": "F1"}, {"e": {"k": "G1"}}),
        "link-onto-dir": ({"e": ("link", "a"), "a": "F1"}, {"e": {}}),
        "fifo-onto-dir": ({"e": ("fifo",)}, {"e": {"k": "G1"}}),
        "link-onto-file": ({"e": ("link", "a"), "a": "F1"}, {"e": "G1"}),
    }
    for cname, (sshape, dshape) in conflicts.items():
        n += 1
        out.append(SC("map-conflict-%s-%d" % (cname, n), tree("s", sshape) + tree("d", {"s": dshape, "keep": "F7"}) + [E("by", "file", "F6")], ["s"], "d", cls="mapping"))
        n += 1
        out.append(SC("map-conflictT-%s-%d" % (cname, n), tree("s", sshape) + tree("d", dict(dshape, keep="F7")) + [E("by", "file", "F6")], ["s"], "d", T=True, cls="mapping"))
    # glob-selected sources
    g = tree("s", {"a.txt": "F1", "b.txt": "F2", "c.dat": "F3", "sub": {"x.txt": "F4"}}) + [E("d", "dir")]
    n += 1; out.append(SC("map-glob-%d" % n, g, ["s/a.txt", "s/b.txt"], "d", r=False, glob=["s/*.txt"], cls="mapping"))
    n += 1; out.append(SC("map-glob2-%d" % n, g, ["s/a.txt", "s/b.txt", "s/c.dat"], "d", r=False, glob=["s/?.txt", "s/c.*"], cls="mapping"))
    n += 1; out.append(SC("map-globdir-%d" % n, g, ["s/sub"], "d", glob=["s/su*"], cls="mapping"))
    return out

def family_alias(rnd, tier):
    """C03: the destination designates the source through another spelling, a symlink or a hard link."""
    base = [E("f", "file", "F1"), E("by", "file", "F6"), E("sub", "dir"), E("sub/k", "file", "F7")]
    out = []
    cases = [
        ("dot", base, ["f"], "./f", {}),
        ("dotdot", base, ["f"], "sub/../f", {}),
        ("owndir", base, ["f"], ".", {}),
        ("owndir-slash", base, ["f"], "./", {}),
        ("abs", base, ["f"], "/ABS/f", {}),
        ("symlink", base + [E("l", "link", "f")], ["f"], "l", {}),
        ("symlink-abs", base + [E("l", "link", "/f")], ["f"], "l", {}),
        ("symlink-chain", base + [E("l", "link", "l2"), E("l2", "link", "f")], ["f"], "l", {}),
        ("symlink-in-dir", base + [E("sub/f", "link", "../f")], ["f"], "sub", {}),
        ("hardlink", base + [E("g", "file", "F1", h=1)], ["f"], "g", {"hl": ("g", "f")}),
        ("hardlink-rev", base + [E("g", "file", "F1", h=1)], ["g"], "f", {"hl": ("g", "f")}),
        ("via-linked-dir", base + [E("ld", "link", "sub")], ["sub/k"], "ld", {}),
        ("via-linked-dir2", base + [E("ld", "link", ".")], ["f"], "ld", {}),
    ]
    for name, fs0, srcs, dest, opt in cases:
        fs = [dict(e) for e in fs0]
        if "hl" in opt:
            for e in fs:
                if e["p"] == [opt["hl"][1]]:
                    e["h"] = 1
            for e in fs:
                if e["p"] == [opt["hl"][0]]:
                    e["hlof"] = [opt["hl"][1]]
        out.append(SC("alias-" + name, fs, srcs, dest, r=False, cls="alias"))
    # the same aliases with a backup mode: the identity test has to come before the backup rename
    for name, fs0, srcs, dest, opt in cases[:3] + cases[5:7] + cases[9:10]:
        for mode, pre in (("numbered", []), ("auto", [E("f.~1~", "file", "G2")])):
            fs = [dict(e) for e in fs0] + pre
            if "hl" in opt:
                for e in fs:
                    if e["p"] == [opt["hl"][1]]: e["h"] = 1
                for e in fs:
                    if e["p"] == [opt["hl"][0]]: e["hlof"] = [opt["hl"][1]]
            out.append(SC("alias-%s-backup-%s" % (name, mode), fs, srcs, dest, r=False, extra=["--backup", mode], cls="alias"))
    # two sources mapping onto one destination name, one of them a link to the other: the destination becomes an alias of
    # a source DURING the run (between another worker's identity test and its create)
    big = E("BIG", "file", "BIGF"); big["meta"]["data"] = bytes(range(1, 251)) * 8000
    race = [big, E("S1", "dir"), E("S1/x", "link", "/S2/x"), E("S2", "dir"), E("S2/x", "file", "F1"), E("D", "dir"), E("by", "file", "F6")]
    sc = SC("alias-late-link", race, ["BIG", "S1/x", "S2/x"], "D", r=False, cls="alias"); sc["repeat"] = 10
    out.append(sc)
    sc = SC("alias-late-link-rel", [dict(e) for e in race], ["S1/x", "S2/x"], "D/", r=False, cls="alias"); sc["repeat"] = 6
    sc["fs0"][2] = E("S1/x", "link", "../S2/x")
    out.append(sc)
    # directories onto themselves
    d = tree("dd", {"x": "F1", "e": {"y": "F2"}, "p": ("fifo",), "l": ("link", "x")}) + [E("by", "file", "F6")]
    out.append(SC("alias-dir-parent", d, ["dd"], "dd/..", cls="alias"))
    out.append(SC("alias-dir-dot", d, ["dd"], ".", cls="alias"))
    out.append(SC("alias-dir-T", d + [E("ld", "link", "dd")], ["dd"], "ld", T=True, cls="alias"))
    out.append(SC("alias-dir-abs", d, ["dd"], "/ABS", cls="alias"))
    out.append(SC("alias-dir-dotslash-T", d, ["./dd"], "dd", T=True, cls="alias"))
    # the same with a directory that holds ONLY one kind of entry: whichever entry a driver meets first must be protected by its
    # own identity test (a sequential dispatcher stops at the first refusal and never reaches the others)
    for nm, shape in (("fifo", {"p": ("fifo",)}), ("link", {"l": ("link", "nowhere")}), ("chr", {"c": ("chr", 1, 3)}), ("sock", {"so": ("sock",)}),
                      ("nested-fifo", {"e": {"p": ("fifo",)}})):
        dd = tree("dd", shape) + [E("by", "file", "F6")]
        out.append(SC("alias-dironly-%s-parent" % nm, dd, ["dd"], "dd/..", cls="alias"))
        out.append(SC("alias-dironly-%s-T" % nm, dd + [E("ld", "link", "dd")], ["dd"], "ld", T=True, cls="alias"))
    # source root is a link to a directory (absolute and relative), the case that used to write through the new link
    t = tree("real", {"a": "F1", "sd": {"b": "F2"}}) + [E("d", "dir"), E("by", "file", "F6")]
    out.append(SC("alias-rootlink-abs", t + [E("ln", "link", "/real")], ["/ABS/ln"], "d", cls="alias"))
    out.append(SC("alias-rootlink-rel", t + [E("ln", "link", "real")], ["ln"], "d", cls="alias"))
    out.append(SC("alias-rootlink-rel-slash", t + [E("ln", "link", "real")], ["ln/"], "d", cls="alias"))
    return out

def family_alias_random(rnd, count):
    """C03: seeded random alias relations - a source entry of any kind, a destination that designates it (or the directory
    holding it) through a random spelling (./, detours through .., absolute, a linked directory, a hard link, a symlink),
    random spelling of the source too, random backup / no-clobber / -T options."""
    out = []
    kinds = {"dd": "dir", "dd/x": "file", "dd/e": "dir", "dd/e/y": "file", "dd/l": "link", "dd/p": "fifo", "dd/e/ll": "link"}
    for i in range(count):
        src = rnd.choice(sorted(kinds))
        k = kinds[src]
        # the tree around the source varies too: each other entry is present or not (a directory holding ONLY a FIFO, only a
        # link, only files ... - which entry a driver meets first decides which of its identity tests is exercised)
        full = tree("dd", {"x": "F1", "e": {"y": "F2", "z": "F3", "ll": ("link", "../x")}, "l": ("link", "x"), "p": ("fifo",)})
        keep_all = rnd.random() < 0.4
        needed = {tuple(src.split("/")[:j]) for j in range(1, len(src.split("/")) + 1)}
        kept = [e for e in full if tuple(e["p"]) in needed or keep_all or rnd.random() < 0.4]
        have = {tuple(e["p"]) for e in kept}
        kept = [e for e in kept if all(tuple(e["p"][:j]) in have for j in range(1, len(e["p"])))]      # no orphans
        fs = kept + [E("by", "file", "F6"), E("o", "dir"), E("o/k", "file", "F7")]
        rel = rnd.choice(["self", "parent", "parent", "sym", "hard"] if k == "file" else ["self", "parent", "parent", "sym"])
        comps = src.split("/")
        def spell(cs, allow_link=True):
            """a random spelling of the path with components cs (all but the last are directories)"""
            outc = []
            for j, c in enumerate(cs):
                r = rnd.random()
                if r < 0.15 and j > 0:
                    outc.append(".")
                if r > 0.8 and j > 0 and j < len(cs):
                    # detour: into a sibling directory and back (".." is resolved by the kernel after links)
                    here = "/".join(cs[:j])
                    sib = {"dd": "e"}.get(here)
                    if sib and any(e["p"] == ["dd", "e"] for e in fs):
                        outc += [sib, ".."]
                outc.append(c)
            text = "/".join(outc)
            r = rnd.random()
            if r < 0.2:
                text = "/ABS/" + text
            elif r < 0.35:
                text = "./" + text
            elif r < 0.5 and allow_link and len(cs) >= 2:
                # through a symbolic link to the first directory
                name = "ld%d" % rnd.randint(0, 9)
                if not any(e["p"] == [name] for e in fs):
                    fs.append(E(name, "link", rnd.choice(["dd", "/dd", "./dd"])))
                    text = name + "/" + "/".join(cs[1:])
            return text
        T = False
        if rel == "self":
            dest = spell(comps)
            T = k == "dir" and rnd.random() < 0.6
        elif rel == "parent":
            dest = spell(comps[:-1]) if len(comps) > 1 else rnd.choice([".", "./", "dd/..", "/ABS"])
            if len(comps) > 1 and rnd.random() < 0.4:
                dest += "/"
        elif rel == "sym":
            fs.append(E("al", "link", rnd.choice([src, "/" + src, "./" + src])))
            dest = rnd.choice(["al", "./al", "/ABS/al"])
            T = k == "dir" and rnd.random() < 0.5
        else:
            h = E("hl", "file", "F1" if src == "dd/x" else "F2", h=1); h["hlof"] = comps
            for e in fs:
                if e["p"] == comps:
                    e["h"] = 1
            fs.append(h)
            dest = rnd.choice(["hl", "./hl"])
        extra = rnd.choice([[], [], ["--backup", "numbered"], ["--backup", "auto"], ["--no-clobber"], ["--fsync"], ["--no-perms"]])
        sc = SC("ralias-%d-%s-%s" % (i, src.replace("/", "_"), rel), fs, [spell(comps, allow_link=False)], dest, r=(k == "dir") or rnd.random() < 0.5,
                T=T, n="--no-clobber" in extra, extra=[x for x in extra if x != "--no-clobber"], cls="alias")
        if rnd.random() < 0.3:
            sc["sources"].append(A("o/k"))        # a second, unrelated source: the run has legitimate work too
            if T:
                sc["T"] = False
        out.append(sc)
    return out

def family_noclobber(rnd, tier):
    """C08: pre-populated destination, colliding entries of every kind at various walk positions."""
    out = []
    big = {("f%02d" % i): "F%d" % (i % 9 + 1) for i in range(12)}
    src_shape = dict(big); src_shape.update({"sub": {"c": "F3", "deep": {"x": "F4"}}, "lnk": ("link", "f01"), "pipe": ("fifo",), "zz": "F5"})
    src = tree("s", src_shape)
    colliders = {
        "none": {},
        "file-first": {"f00": "G1"},
        "file-last": {"zz": "G1"},
        "file-deep": {"sub": {"deep": {"x": "G4"}}},
        "dir-only": {"sub": {"other": "G2"}},
        "link-onto-file": {"lnk": "G1"},
        "file-onto-link": {"f05": ("link", "../by")},
        "file-onto-dangling": {"f05": ("link", "../nowhere")},
        "fifo-onto-file": {"pipe": "G1"},
        "fifo-onto-fifo": {"pipe": ("fifo",)},
        "file-onto-fifo-name": {"zz": ("link", "f00")},
        "dir-onto-file": {"sub": "G1"},
        "file-onto-dir": {"zz": {}},
    }
    for name, coll in colliders.items():
        fs = src + tree("d", {"s": coll, "keep": "F7"}) + [E("by", "file", "F6")]
        out.append(SC("nc-" + name, fs, ["s"], "d", n=True, cls="noclobber"))
        out.append(SC("ncT-" + name, src + tree("d", dict(coll, keep="F7")) + [E("by", "file", "F6")], ["s"], "d", n=True, T=True, cls="noclobber"))
    # option combinations: a backup mode must not turn a refused overwrite into a rename of the existing entry
    for mode in ("numbered", "auto"):
        pre = {"s": {"f00": "G1", "f00.~1~": "G2", "zz": "G3", "sub": {"c": "G4", "c.~7~": "G5"}}, "keep": "F7"}
        out.append(SC("nc-backup-%s" % mode, src + tree("d", pre) + [E("by", "file", "F6")], ["s"], "d", n=True, extra=["--backup", mode], cls="noclobber"))
        out.append(SC("nc-backup-single-%s" % mode, [E("f", "file", "F1"), E("d", "file", "G1"), E("d.~1~", "file", "G2")], ["f"], "d", r=False, n=True,
                      extra=["--backup", mode], cls="noclobber"))
    # walker probe racing a queued link: two sources whose mapped destinations coincide, one of them a link into populated content
    race = [E("a", "dir"), E("a/x", "link", "/d/pre"), E("b", "dir"), E("b/x", "dir"), E("b/x/f", "file", "F1"), E("b/x/g", "file", "F2"),
            E("d", "dir"), E("d/pre", "dir"), E("d/pre/f", "file", "G1"), E("by", "file", "F6")]
    sc = SC("nc-race-linkdir", race, ["a/x", "b/x"], "d", n=True, cls="noclobber"); sc["repeat"] = 12
    out.append(sc)
    sc = SC("nc-race-linkdir-rel", [dict(e) for e in race], ["a/x", "b/x"], "d", n=True, cls="noclobber"); sc["repeat"] = 6
    sc["fs0"][1] = E("a/x", "link", "pre")
    out.append(sc)
    out.append(SC("nc-single-file", [E("f", "file", "F1"), E("d", "file", "G1")], ["f"], "d", r=False, n=True, cls="noclobber"))
    out.append(SC("nc-single-dangling", [E("f", "file", "F1"), E("d", "link", "outside"), E("by", "file", "F6")], ["f"], "d", r=False, n=True, cls="noclobber"))
    out.append(SC("nc-single-into-dir", [E("f", "file", "F1"), E("d", "dir"), E("d/f", "file", "G1")], ["f"], "d", r=False, n=True, cls="noclobber"))
    return out

def family_deref(rnd, tier):
    """C13: links to files, directories, chains, outside targets, dangling and cyclic; with --dereference."""
    out = []
    outside = tree("o", {"of": "F8", "od": {"in": "F9", "in2": {"deep": "F3"}}})
    shapes = {
        "file-rel": {"a": "F1", "l": ("link", "a")},
        "file-abs": {"a": "F1", "l": ("link", "/s/a")},
        "dir-rel": {"d": {"x": "F1", "y": {"z": "F2"}}, "ld": ("link", "d")},
        "dir-outside": {"a": "F1", "lo": ("link", "../o/od")},
        "file-outside": {"lo": ("link", "../o/of")},
        "chain2": {"a": "F1", "l1": ("link", "l2"), "l2": ("link", "a")},
        "chain3-dir": {"d": {"x": "F1"}, "l1": ("link", "l2"), "l2": ("link", "l3"), "l3": ("link", "d")},
        "dangling": {"a": "F1", "dl": ("link", "nowhere")},
        "cyclic": {"a": "F1", "c1": ("link", "c2"), "c2": ("link", "c1")},
        "self": {"a": "F1", "me": ("link", "me")},
        "up-loop": {"a": "F1", "d": {"up": ("link", "..")}},
        "nested-link-in-linked-dir": {"d": {"x": "F1", "lx": ("link", "x")}, "ld": ("link", "d")},
        "link-to-fifo": {"p": ("fifo",), "lp": ("link", "p")},
    }
    def chain(n, target):
        sh = {"l1": ("link", target)}
        for i in range(2, n + 1):
            sh["l%d" % i] = ("link", "l%d" % (i - 1))
        return sh
    shapes["chain20-file"] = dict(chain(20, "a"), a="F1")
    shapes["chain40-file"] = dict(chain(40, "a"), a="F1")          # the longest chain the OS resolves
    shapes["chain41-file"] = dict(chain(41, "a"), a="F1")          # one more: ELOOP, the run must fail
    shapes["chain40-dir"] = dict(chain(40, "d"), d={"x": "F2"})
    for name, sh in shapes.items():
        for dn, dst in (("absent", []), ("dir", [E("d", "dir")])):
            sc = SC("deref-%s-%s" % (name, dn), tree("s", sh) + outside + dst, ["s"], "d", L=True, cls="deref")
            if len(sh) > 12:
                sc["nomodel"] = True      # 40 siblings: the exhaustive exploration of walk orders is exponential in the fan-out
                if dn == "dir":
                    continue
            out.append(sc)
    out.append(SC("deref-rootlink", tree("real", {"a": "F1", "sd": {"b": "F2"}}) + [E("ln", "link", "real"), E("d", "dir")], ["ln"], "d", L=True, cls="deref"))
    out.append(SC("deref-single-link", [E("f", "file", "F1"), E("l", "link", "f")], ["l"], "d", r=False, L=True, cls="deref"))
    out.append(SC("deref-single-dangling", [E("l", "link", "nowhere"), E("d", "dir")], ["l"], "d", r=False, L=True, cls="deref"))
    return out

def family_special(rnd, tier):
    """C14: fifo, socket, char devices (device numbers), block device; fresh / existing destination; no-clobber."""
    out = []
    nodes = {"p": ("fifo",), "so": ("sock",), "null": ("chr", 1, 3), "zero": ("chr", 1, 5), "tty9": ("chr", 4, 9), "big": ("chr", 250, 70000)}
    src = tree("s", dict(nodes, a="F1", sub={"p2": ("fifo",), "c2": ("chr", 1, 7)}))
    for dn, dst in (("absent", []), ("dir", [E("d", "dir")]),
                    ("existing", tree("d", {"s": {"p": "G1", "null": ("fifo",), "zero": ("chr", 9, 9), "so": ("link", "x")}}))):
        out.append(SC("spec-tree-" + dn, src + dst, ["s"], "d", cls="special"))
    for name, node in nodes.items():
        ent = [E(name, node[0], "%d:%d" % (node[1], node[2]) if len(node) > 1 else "")]
        out.append(SC("spec-sole-%s-fresh" % name, ent, [name], "d", r=False, cls="special"))
        out.append(SC("spec-sole-%s-intodir" % name, ent + [E("d", "dir")], [name], "d", r=False, cls="special"))
        out.append(SC("spec-sole-%s-replace" % name, ent + [E("d", "file", "G1")], [name], "d", r=False, cls="special"))
        out.append(SC("spec-sole-%s-noclobber" % name, ent + [E("d", "file", "G1")], [name], "d", r=False, n=True, cls="special"))
    # permission bits and file-creation mask
    for mode in (0o600, 0o666, 0o640, 0o777, 0o444):
        for um in (0, 0o022, 0o077):
            fs = [E("s", "dir"), E("s/p", "fifo", m=mode), E("s/c", "chr", "1:3", m=mode), E("s/so", "sock", m=mode), E("s/f", "file", "F1")]
            sc = SC("spec-mode-%o-%o" % (mode, um), fs, ["s"], "d", cls="special"); sc["umask"] = um
            out.append(sc)
            sc = SC("spec-mode-sole-%o-%o" % (mode, um), [E("p", "fifo", m=mode)], ["p"], "d", r=False, cls="special"); sc["umask"] = um
            out.append(sc)
    # re-copy over an earlier copy: the same kind of node is already there, with other permission bits
    for um in (0, 0o022):
        fs = [E("s", "dir"), E("s/p", "fifo", m=0o666), E("s/c", "chr", "1:3", m=0o660), E("s/so", "sock", m=0o777), E("s/f", "file", "F1"),
              E("d", "dir"), E("d/p", "fifo", m=0o600), E("d/c", "chr", "1:3", m=0o600), E("d/so", "sock", m=0o700), E("d/f", "file", "G1")]
        sc = SC("spec-recopy-samekind-%o" % um, fs, ["s"], "d", T=True, cls="special"); sc["umask"] = um
        out.append(sc)
        sc = SC("spec-recopy-sole-fifo-%o" % um, [E("p", "fifo", m=0o644), E("d", "fifo", m=0o600)], ["p"], "d", r=False, cls="special"); sc["umask"] = um
        out.append(sc)
    # many directories, each with several nodes: node creation by the workers overlaps directory creation by the walker
    # (the file-creation mask is per process: nothing the walker does may leak into the nodes' modes)
    for um in (0o022, 0o027):
        fs = [E("s", "dir")]
        for di in range(12):
            fs.append(E("s/d%02d" % di, "dir"))
            for fi in range(4):
                fs.append(E("s/d%02d/p%d" % (di, fi), "fifo", m=0o666))
            fs.append(E("s/d%02d/c" % di, "chr", "1:3", m=0o666))
        sc = SC("spec-many-dirs-%o" % um, fs, ["s"], "d", cls="special"); sc["umask"] = um; sc["repeat"] = 6; sc["nomodel"] = True
        sc["perturb"] = [None, "mkdir:delay_exit=3000", "mkdir:delay_enter=3000", "mknodat:delay_enter=2000", "mkdir:delay_exit=20000:when=2+3", None]
        out.append(sc)
    out.append(SC("spec-blk-sole", [E("bd", "blk", "7:0")], ["bd"], "d", r=False, cls="special"))
    out.append(SC("spec-blk-tree", tree("s", {"a": "F1", "bd": ("blk", 7, 1), "z": "F2"}), ["s"], "d", cls="special"))
    return out

def family_special_random(rnd, count):
    """C14: seeded random node kinds, device numbers (major up to 4095, minor up to 2^20 - 1), modes, umasks, positions
    (sole source / in a tree at a random depth), destination states (fresh, or an existing entry of a random kind at the node's
    target), no-clobber or not."""
    out = []
    def node(name):
        k = rnd.choice(["fifo", "sock", "chr", "chr", "chr"])
        m = rnd.choice([0o600, 0o644, 0o666, 0o660, 0o777, 0o400, 0o620, 0o4755 & 0o777])
        if k == "chr":
            maj = rnd.choice([1, 4, 5, 10, 180, 255, 256, 511, 4095]); mnr = rnd.choice([0, 3, 7, 255, 256, 257, 65535, 65536, 70000, (1 << 20) - 1])
            return E(name, "chr", "%d:%d" % (maj, mnr), m=m)
        return E(name, k, m=m)
    def existing(path, avoid):
        k = rnd.choice(["file", "fifo", "chr", "link", "emptydir"])
        if k == "file": return [E(path, "file", "G1")]
        if k == "fifo": return [E(path, "fifo", m=0o600)]
        if k == "chr": return [E(path, "chr", "9:9", m=0o600)]
        if k == "link": return [E(path, "link", "nowhere")]
        return [E(path, "dir")]
    for i in range(count):
        um = rnd.choice([0, 0o022])
        n = rnd.random() < 0.2
        if rnd.random() < 0.35:
            e = node("nd")
            fs = [e]
            dst = rnd.choice(["fresh", "intodir", "replace"])
            if dst == "intodir":
                fs += [E("d", "dir")] + (existing("d/nd", None) if rnd.random() < 0.5 else [])
            elif dst == "replace":
                fs += existing("d", None)
            sc = SC("rspec-%d-sole-%s-%s" % (i, e["k"], dst), fs, ["nd"], "d", r=False, n=n, cls="special")
        else:
            fs = [E("s", "dir"), E("s/a", "file", "F1")]
            dirs = ["s"]
            for j in range(rnd.randint(0, 3)):
                dname = rnd.choice(dirs) + "/d%d" % j
                fs.append(E(dname, "dir")); dirs.append(dname)
            names = []
            for j in range(rnd.randint(1, 6)):
                nm = rnd.choice(dirs) + "/n%d" % j
                fs.append(node(nm)); names.append(nm)
            T = rnd.random() < 0.3
            if rnd.random() < 0.5:
                # an earlier state of the destination: some node targets are taken by entries of random kinds
                base = "d" if T else "d/s"
                fs.append(E("d", "dir"))
                if not T: fs.append(E("d/s", "dir"))
                made = set()
                for nm in names:
                    if rnd.random() < 0.6:
                        rel = nm.split("/")[1:]
                        for q in range(1, len(rel)):
                            pp = base + "/" + "/".join(rel[:q])
                            if pp not in made:
                                made.add(pp); fs.append(E(pp, "dir"))
                        fs += existing(base + "/" + "/".join(rel), None)
            sc = SC("rspec-%d-tree%s" % (i, "-T" if T else ""), fs, ["s"], "d", T=T, n=n, cls="special")
        sc["umask"] = um
        out.append(sc)
    return out

def family_reject(rnd, tier):
    """C16: every rejection class x position of the offending argument x destination state."""
    out = []
    good = [E("g1", "file", "F1"), E("g2", "file", "F2"), E("gd", "dir"), E("gd/x", "file", "F3"), E("by", "file", "F6")]
    dstates = {"absent": [], "dir": [E("d", "dir")], "populated": tree("d", {"g1": "G1", "keep": "F7"}), "file": [E("d", "file", "G9")]}
    n = 0
    for dn, dst in dstates.items():
        for pos in (0, 1, 2):
            srcs = ["g1", "g2", "gd"]
            srcs.insert(pos, "missing")
            n += 1; out.append(SC("rej-missing-%s-%d" % (dn, pos), good + dst, srcs, "d", cls="reject"))
            srcs = ["g1", "g2"]; srcs.insert(pos, "gd")
            n += 1; out.append(SC("rej-dir-norec-%s-%d" % (dn, pos), good + dst, srcs, "d", r=False, cls="reject"))
        for bad_src, extra_fs in (("g1/x", []), ("loop", [E("loop", "link", "loop")]), ("l1", [E("l1", "link", "l2"), E("l2", "link", "l1")]), ("dang", [E("dang", "link", "nowhere")])):
            for pos in (0, 2):
                srcs = ["g1", "g2"]; srcs.insert(pos, bad_src)
                out.append(SC("rej-unresolvable-%s-%s-%d" % (bad_src.replace("/", "_"), dn, pos), good + extra_fs + dst, srcs, "d", cls="reject"))
        out.append(SC("rej-multi-nondir-%s" % dn, good + dst, ["g1", "g2"], "d", r=False, cls="reject"))
        out.append(SC("rej-same-%s" % dn, good + dst, ["g1", "d"], "d", cls="reject"))
        out.append(SC("rej-same-target-%s" % dn, good + dst + [E("d/q", "file", "F4")] if dn in ("dir", "populated") else good + dst, ["g2", "d/g1"] if dn in ("dir", "populated") else ["g1"], "g1" if dn not in ("dir", "populated") else "d", r=False, cls="reject"))
    for mode in ("none", "numbered", "auto"):
        pre = [E("g1.~3~", "file", "G3")] if mode == "auto" else []
        out.append(SC("rej-self-dot-%s" % mode, good + pre, ["g1"], "./g1", r=False, extra=["--backup", mode], cls="reject"))
        out.append(SC("rej-self-dotdot-%s" % mode, good + pre, ["g1"], "gd/../g1", r=False, extra=["--backup", mode], cls="reject"))
        out.append(SC("rej-self-symlink-%s" % mode, good + pre + [E("lg", "link", "g1")], ["g1"], "lg", r=False, extra=["--backup", mode], cls="reject"))
        hl = [dict(e) for e in good + pre]
        for e in hl:
            if e["p"] == ["g1"]: e["h"] = 1
        g = E("hg", "file", "F1", h=1); g["hlof"] = ["g1"]
        out.append(SC("rej-self-hardlink-%s" % mode, hl + [g], ["g1"], "hg", r=False, extra=["--backup", mode], cls="reject"))
    out.append(SC("rej-dir-onto-file", good + [E("d", "file", "G9")], ["gd"], "d", cls="reject"))
    out.append(SC("rej-nosource", good, [], "d", cls="reject"))
    # option-level rejections: the scenario carries extra argv; the model sees them as a rejected invocation via 'forceReject'
    for extra in (["--force", "--no-clobber"], ["--reflink", "sometimes"], ["--backup", "yes"], ["--driver", "nope"], ["--workers", "many"],
                  ["--block-size", "big"], ["--no-such-option"]):
        for dn in ("absent", "populated"):
            out.append(SC("rej-opt-%s-%s" % ("_".join(x.strip("-") for x in extra), dn), good + dstates[dn], ["g1", "g2", "gd"], "d",
                          extra=extra, cls="reject-opt"))
    # glob: malformed pattern, pattern matching nothing among valid ones
    out.append(SC("rej-glob-malformed", good + [E("d", "dir")], ["g1"], "d", r=False, glob=["g1", "g***"], cls="reject-glob"))
    out.append(SC("rej-glob-nomatch", good + [E("d", "dir")], ["g1"], "d", r=False, glob=["g1", "nomatch*"], cls="reject-glob"))
    out.append(SC("rej-glob-dir-norec", good + [E("d", "dir")], ["g1", "g2", "gd"], "d", r=False, glob=["g?"], cls="reject"))
    out.append(SC("rej-glob-dir-norec-populated", good + dstates["populated"], ["gd"], "d", r=False, glob=["gd*"], cls="reject"))
    out.append(SC("rej-glob-nomatch-first", good + [E("d", "dir")], ["g1"], "d", r=False, glob=["nonexist.txt", "g1"], cls="reject-glob"))
    return out

def family_reject_random(rnd, count):
    """C16: a seeded random valid invocation made invalid in ONE randomly chosen way, at a random argument position, with random
    result-neutral options around it.  Trace_NS decides from main's validation rules whether the invocation is rejected; the
    clause then demands an unchanged sandbox."""
    out = []
    good = [E("g1", "file", "F1"), E("g2", "file", "F2"), E("gd", "dir"), E("gd/x", "file", "F3"), E("ge", "dir"), E("by", "file", "F6")]
    dstates = {"absent": [], "dir": [E("d", "dir")], "populated": tree("d", {"g1": "G1", "gd": {"x": "G3"}, "keep": "F7"}), "file": [E("d", "file", "G9")]}
    for i in range(count):
        dn = rnd.choice(sorted(dstates))
        fs = [dict(e) for e in good] + [dict(e) for e in dstates[dn]]
        srcs = rnd.sample(["g1", "g2", "gd", "gd/x", "ge"], rnd.randint(1, 4))
        srcs = [rnd.choice(["", "./", "gd/../"]) + x for x in srcs]
        how = rnd.choice(["missing", "enotdir", "loop", "dangling", "dir-norec", "multi-nondir", "same", "same-target", "badopt", "glob-nomatch"])
        r, dest, extra, glob, cls = True, "d", [], [], "reject"
        pos = rnd.randint(0, len(srcs))
        if how == "missing":
            srcs.insert(pos, rnd.choice(["missing", "gd/missing", "./nope"]))
        elif how == "enotdir":
            srcs.insert(pos, "g1/x")
        elif how == "loop":
            fs.append(E("loop", "link", "loop")); srcs.insert(pos, "loop")
        elif how == "dangling":
            fs.append(E("dang", "link", "nowhere")); srcs.insert(pos, "dang")
        elif how == "dir-norec":
            r = False
            if not any(x.endswith(("gd", "ge")) for x in srcs):
                srcs.insert(pos, "gd")
        elif how == "multi-nondir":
            if len(srcs) < 2:
                srcs.append("g2" if "g2" not in srcs else "g1")
            if dn in ("dir", "populated"):
                dest = rnd.choice(["by", "nonexistent"])
        elif how == "same":
            srcs.insert(pos, "d"); 
        elif how == "same-target":
            if dn in ("dir", "populated"):
                if not any(e["p"] == ["d", "g1"] for e in fs):
                    fs.append(E("d/g1", "file", "G1"))
                srcs = [x for x in srcs if not x.endswith("g1")]
                srcs.insert(min(pos, len(srcs)), rnd.choice(["d/g1", "./d/g1"]))
            else:
                srcs, dest, r = ["g1"], rnd.choice(["./g1", "gd/../g1"]), False
        elif how == "badopt":
            extra += rnd.choice([["--force", "--no-clobber"], ["--reflink", "sometimes"], ["--backup", "yes"], ["--driver", "nope"], ["--workers", "many"], ["--block-size", "big"], ["--no-such-option"]])
            cls = "reject-opt"
        elif how == "glob-nomatch":
            r = False
            glob = [x for x in srcs if "/" not in x and x in ("g1", "g2")] or ["g1"]
            glob.insert(min(pos, len(glob)), rnd.choice(["nomatch*", "zz?", "g1x*"]))
            srcs = [g for g in glob if "*" not in g and "?" not in g]
            cls = "reject-glob"
        if cls == "reject":
            extra += rnd.choice([[], [], ["--backup", "numbered"], ["--backup", "auto"], ["--fsync"], ["--no-perms"], ["--gitignore"], ["--no-progress"], ["--workers", "3"]])
        sc = SC("rrej-%d-%s-%s" % (i, how, dn), fs, srcs, dest, r=r, extra=extra, glob=glob, cls=cls)
        out.append(sc)
    return out

def family_random(rnd, count):
    """Random small scenarios over a fixed name universe (covers combinations the structured families do not)."""
    out = []
    names = ["a", "b", "d", "l"]
    for i in range(count):
        def rtree(depth, links=True):
            # destination areas get no links: a regular file copied onto a destination link is written through it
            # (cp-compatible) and the result then depends on the order of operations - outside the stated domain (DESIGN 7)
            sh = {}
            for nme in rnd.sample(names, rnd.randint(0, 3)):
                x = rnd.random()
                if x < 0.45: sh[nme] = "F%d" % rnd.randint(1, 5)
                elif x < 0.65 and depth < 2: sh[nme] = rtree(depth + 1, links)
                elif x < 0.85 and not links: sh[nme] = "G%d" % rnd.randint(1, 5)
                elif x < 0.85: sh[nme] = ("link", rnd.choice(["a", "b", "../a", "d", "nowhere", "/s/a", "/s", ".."]))
                elif x < 0.93: sh[nme] = ("fifo",)
                else: sh[nme] = {}
            return sh
        s_is_file = rnd.random() < 0.15
        fs = [E("s", "file", "F1")] if s_is_file else tree("s", rtree(0))
        dkind = rnd.choice(["absent", "dir", "pop", "file", "earlier"])
        if dkind == "dir": fs += [E("d", "dir")]
        elif dkind == "pop": fs += tree("d", {"keep": "F7", "s": rtree(1, False)})
        elif dkind == "earlier": fs += tree("d", {"s": rtree(1, False), "a": "G1"})
        elif dkind == "file": fs += [E("d", "file", "G9")]
        fs.append(E("by", "file", "F6"))
        # drop duplicate paths (rtree may collide with fixed names) keeping the first
        seen, uniq = set(), []
        for e in fs:
            t = tuple(e["p"])
            if t not in seen:
                seen.add(t); uniq.append(e)
        out.append(SC("rand-%d" % i, uniq, [rnd.choice(["s", "./s", "s/"])], rnd.choice(["d", "d/", "./d"]),
                      r=rnd.random() < 0.9, T=rnd.random() < 0.25, n=rnd.random() < 0.25, L=rnd.random() < 0.25, cls="random"))
    return out

# ------------------------------------------------------------------ model-side scenario record
import re as _re
_BAK = _re.compile(r"^(.*)\.~(\d+)~$")

def model_record(sc):
    keep = ("id", "r", "T", "n", "L")
    m = {k: sc[k] for k in keep}
    m["bad"] = sc.get("cls", "") in ("reject-opt", "reject-glob")
    def bak(name):
        mm = _BAK.match(name)
        if mm and len(mm.group(2)) < 9:
            return mm.group(1), int(mm.group(2))
        return "", 0
    m["fs0"] = [{"p": e["p"], "k": e["k"], "c": e["c"], "lt": e["lt"], "h": e["h"], "g": 0, "bb": bak(e["p"][-1])[0], "bn": bak(e["p"][-1])[1]} for e in sc["fs0"]]
    ex = sc.get("extra", [])
    m["bk"] = ex[ex.index("--backup") + 1] if "--backup" in ex and sc["n"] is False else "none"
    if m["bk"] == "off":
        m["bk"] = "none"
    m["sources"] = [{"norm": a["norm"], "trail": a["trail"]} for a in sc["sources"]]
    m["dest"] = {"norm": sc["dest"]["norm"], "trail": sc["dest"]["trail"]}
    return m

# ------------------------------------------------------------------ real runs
def render(arg, names, root):
    comps = []
    absolute = False
    for i, c in enumerate(arg["norm"]):
        if i == 0 and c == "/ABS":
            absolute = True; continue
        comps.append(c.encode() if c in (".", "..") else names.conc(c))
    s = b"/".join(comps)
    if absolute:
        s = os.path.join(root.encode(), s) if s else root.encode()
    if arg["trail"]:
        s += b"/"
    return s or b"."

def render_glob(pat, names, root):
    # glob patterns are over plain names in these scenarios
    return pat.encode()

def md_of(e):
    return "%o|%s|%d|%d|%s|%s" % (e["m"], e["t"], e["u"], e["g"], e["x"], e["i"])

def observe(entries, with_md=True):
    return [{"p": e["p"], "k": e["k"], "c": (e["r"] if e["k"] in ("chr", "blk") else e["c"]), "md": md_of(e) if with_md else "",
             "m": e["m"]} for e in entries]

def mat_entries(sc):
    out = []
    for e in sc["fs0"]:
        d = {"p": e["p"], "k": e["k"]}
        if e["k"] == "file":
            d["c"] = e["c"]
            if e.get("hlof"):
                d["hl"] = e["hlof"]
        elif e["k"] == "link":
            d["c"] = e["lt"]
        elif e["k"] in ("chr", "blk"):
            maj, mi = e["c"].split(":"); d["r"] = [int(maj), int(mi)]
        d.update(e.get("meta", {}))
        out.append(d)
    return out

def cli(sc, driver, names, root, workers=None):
    argv = [b"--driver", driver.encode()]
    if workers is not None:
        argv += [b"--workers", str(workers).encode()]
    if sc["r"]: argv.append(b"-r")
    if sc["T"]: argv.append(b"-T")
    if sc["n"]: argv.append(b"--no-clobber")
    if sc["L"]: argv.append(b"-L")
    argv += [x.encode() for x in sc.get("extra", [])]
    if sc.get("glob"):
        argv.append(b"--glob")
        srcs = [render_glob(g, names, root) for g in sc["glob"]]
    else:
        srcs = [render(a, names, root) for a in sc["sources"]]
    d = render(sc["dest"], names, root)
    if sc.get("tdir"):
        argv += [b"--target-directory", d] + srcs
    else:
        argv += srcs + [d]
    return argv

def run_one(binary, sc, driver, run_id, names=None, strace=None, workers=None, env=None, timeout=60, keep=False):
    """Materialise, snapshot, run, snapshot.  Returns the observation record for Trace_NS (+ '_run' with raw details)."""
    names = names or fsmat.Names()
    root = os.path.join(scratch(), "ns-%s" % run_id)
    _rmtree(root)
    os.makedirs(root)
    contents = fsmat.materialise(root, mat_entries(sc), names)
    before = fsmat.snapshot(root, names, contents)
    st = None
    if strace is not None:
        st = dict(strace); st["out"] = root + ".strace"
    umask = sc.get("umask", 0o022)
    r = runner.run_xcp(binary, cli(sc, driver, names, root, workers), cwd=root, env=env, strace=st, timeout=timeout, umask=umask)
    after = fsmat.snapshot(root, names, contents)
    faulted = bool(env and env.get("XCP_VERIF_PLAN")) or any(("error=" in x or "signal=" in x) for x in ((strace or {}).get("inject") or []))
    obs = {"sc": model_record(sc), "driver": driver, "run": run_id, "umask": umask, "faulted": faulted,
           "exit": (-9 if r.exit is None else r.exit) if not r.timed_out else -7,
           "before": observe(before), "after": observe(after)}
    obs["_run"] = {"stderr": r.stderr[-600:], "wall": r.wall, "timed_out": r.timed_out, "argv": [a.decode(errors="replace") for a in cli(sc, driver, names, root, workers)],
                   "cls": sc.get("cls", ""), "trace": st["out"] if st else None, "root": root}
    if not keep:
        _rmtree(root)
    return obs

def strip(obs):
    return {k: v for k, v in obs.items() if not k.startswith("_")}

def judge(observations, chunk=400):
    """Send observations to Trace_NS; returns list of verdict dicts aligned with observations."""
    verdicts = []
    stats = {"generated": 0, "distinct": 0, "wall": 0.0}
    for i in range(0, len(observations), chunk):
        part = observations[i:i + chunk]
        r = tlc.monitor("Trace_NS", "Trace_NS.cfg", [strip(o) for o in part])
        vs = [v for t, v in r.printed if t == "VERDICT"]
        if len(vs) != len(part):
            from .common import ToolError
            raise ToolError("Trace_NS produced %d verdicts for %d observations\n%s" % (len(vs), len(part), r.out[-2000:]))
        verdicts += vs
        stats["generated"] += r.generated; stats["distinct"] += r.distinct; stats["wall"] += r.wall
    return verdicts, stats

def model_check(scenarios, workers=8, timeout=1200, cfg="MC_NS.cfg"):
    """Exhaustive Layer-A check of XcpNS over the given scenarios (all walker orders x all operation orders)."""
    path = os.path.join(scratch(), "scen-%d.ndjson" % os.getpid())
    tlc.write_ndjson(path, [model_record(s) for s in scenarios])
    r = tlc.run("MC_NS", cfg, workers=workers, env={"SCEN": path}, timeout=timeout, want_tags={"PREDICT"})
    os.unlink(path)
    return r

# ------------------------------------------------------------------ kill / fault campaigns (strace as driver)
MUTATING = "statx,newfstatat,openat,ftruncate,copy_file_range,fchmod,utimensat,fchown,fsetxattr,fsync,rename,mkdir,symlink,mknodat,unlink,write,pwrite64,close"

def profile(binary, sc, driver, workers=2):
    """Fault-free traced run -> per-thread count of each traced syscall: {sys: max count in one thread}, total max per thread."""
    from . import s2e
    o = run_one(binary, sc, driver, "prof-%s-%s" % (sc["id"], driver), strace={"trace": MUTATING}, workers=workers, keep=True)
    per = {}
    tot = {}
    for r in s2e.parse(o["_run"]["trace"]):
        if r["kind"] != "sys":
            continue
        per.setdefault(r["sys"], {}).setdefault(r["tid"], 0)
        per[r["sys"]][r["tid"]] += 1
        tot[r["tid"]] = tot.get(r["tid"], 0) + 1
    _rmtree(o["_run"]["root"])
    try:
        os.unlink(o["_run"]["trace"])
    except OSError:
        pass
    return {s: max(c.values()) for s, c in per.items()}, (max(tot.values()) if tot else 0), o

KILLABLE = ("rename", "ftruncate", "copy_file_range", "fchmod", "utimensat", "fchown", "fsetxattr", "fsync", "mkdir", "symlink", "mknodat", "unlink")

def kill_points(counts, step=1):
    """(syscall, n) for every per-thread occurrence of a mutating call (the main thread issues none of these while starting
    up, so the kill really lands inside the copy: SIGKILL is delivered on entry to the n-th such call of a thread, i.e.
    after everything before it and before the call itself)."""
    pts = []
    for sysc in KILLABLE:
        for n in range(1, counts.get(sysc, 0) + 1, step):
            pts.append((sysc, n))
    return pts

def kill_runs(binary, sc, driver, points, workers=2, tag="kill"):
    """One run per kill point (syscall, n)."""
    jobs = list(points)
    def one(pt):
        sysc, n = pt
        o = run_one(binary, sc, driver, "%s-%s-%s-%s-%d" % (tag, sc["id"], driver, sysc, n), workers=workers,
                    strace={"trace": MUTATING, "inject": ["%s:signal=KILL:when=%d" % (sysc, n)]})
        o["_run"]["point"] = [sysc, n]
        try:
            os.unlink(o["_run"]["trace"])
        except OSError:
            pass
        return o
    return runner.pmap(one, jobs)

def fault_runs(binary, sc, driver, points, workers=2, tag="fault", keep_trace=False, extra_args=None):
    """points: list of (syscall, errno, when).  One run per point with that call failing."""
    def one(pt):
        sysc, err, when = pt
        o = run_one(binary, sc, driver, "%s-%s-%s-%s-%s-%d" % (tag, sc["id"], driver, sysc, err, when), workers=workers,
                    strace={"trace": MUTATING + ",ioctl,getdents64,newfstatat,statx,readlink,lseek,read,pread64", "inject": ["%s:error=%s:when=%d" % (sysc, err, when)]})
        o["_run"]["point"] = list(pt)
        inj = False
        try:
            with open(o["_run"]["trace"], errors="replace") as f:
                inj = "(INJECTED)" in f.read()
            if not keep_trace:
                os.unlink(o["_run"]["trace"])
        except OSError:
            pass
        o["_run"]["injected"] = inj
        return o
    return runner.pmap(one, points)
