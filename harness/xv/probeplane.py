"""API-probe plane: run libxcp through the probe binary with a chosen StatusUpdater and collect the update stream."""
from .common import rmtree as _rmtree
import json, os, shutil, subprocess, time
from . import fsmat, nsplane
from .common import scratch

def run_copy(probe, sc, driver, updater, cfg, run_id, env=None, timeout=60, strace_inject=None, keep=False, measure=False):
    """sc: name-space scenario (sources / dest as args).  Returns dict(stream=[...], end={...}|None, timed_out, rc, before, after)."""
    root = os.path.join(scratch(), "pr-%s" % run_id)
    _rmtree(root)
    os.makedirs(root)
    names = fsmat.Names()
    contents = fsmat.materialise(root, nsplane.mat_entries(sc), names)
    before = fsmat.snapshot(root, names, contents)
    srcs = [nsplane.render(a, names, root).decode() for a in sc["sources"]]
    dest = nsplane.render(sc["dest"], names, root).decode()
    cmd = [probe, "copy", driver, updater, json.dumps(cfg), dest] + srcs
    tracefile = root + ".strace"
    if measure:
        sc_ = ["strace", "-f", "-y", "-o", tracefile, "-e", "trace=copy_file_range,pwrite64,write,sendfile" + ("," + strace_inject.split(":")[0] if strace_inject else ""),
               "-e", "signal=none"]
        if strace_inject:
            sc_ += ["-e", "inject=" + strace_inject]
        cmd = sc_ + cmd
    elif strace_inject:
        cmd = ["strace", "-f", "-o", "/dev/null", "-e", "trace=" + strace_inject.split(":")[0], "-e", "inject=" + strace_inject, "-e", "signal=none"] + cmd
    e = dict(os.environ)
    if env:
        e.update(env)
    t0 = time.time()
    p = subprocess.Popen(cmd, cwd=root, env=e, stdout=subprocess.PIPE, stderr=subprocess.PIPE, preexec_fn=os.setsid)
    timed_out = False
    try:
        out, err = p.communicate(timeout=timeout)
    except subprocess.TimeoutExpired:
        timed_out = True
        try:
            os.killpg(p.pid, 9)
        except ProcessLookupError:
            pass
        out, err = p.communicate()
    wall = time.time() - t0
    stream, end = [], None
    for line in out.decode(errors="replace").splitlines():
        try:
            j = json.loads(line)
        except ValueError:
            continue
        if j.get("end"):
            end = j
        else:
            stream.append(j)
    after = fsmat.snapshot(root, names, contents)
    transferred = -1
    if measure and os.path.exists(tracefile):
        from . import s2e
        transferred = 0
        droot = os.path.join(root, dest) if not dest.startswith("/") else dest
        for r in s2e.parse(tracefile):
            if r["kind"] != "sys" or r["ret"] is None or r["ret"] <= 0:
                continue
            if r["sys"] == "copy_file_range":
                fd, path = s2e.fdpath(r["args"][2])
            elif r["sys"] in ("pwrite64", "write", "sendfile"):
                fd, path = s2e.fdpath(r["args"][0])
            else:
                continue
            if path and (path == droot or path.startswith(droot + "/") or path.startswith(droot)):
                transferred += r["ret"]
        os.unlink(tracefile)
    res = {"transferred": transferred,"stream": stream, "end": end, "timed_out": timed_out, "rc": p.returncode, "wall": wall, "stderr": err.decode(errors="replace")[-400:],
           "before": before, "after": after, "root": root}
    if not keep:
        _rmtree(root)
    return res
