"""Data plane: single-file copy scenarios (from TLC's enumeration of XcpData's initial states), real runs, observations."""
from .common import rmtree as _rmtree
import os, shutil, tempfile
from . import fsmat, runner, tlc
from .common import scratch, rng, ToolError

ERRNO_FALLBACK = {"ENOSYS": 38, "EXDEV": 18, "EPERM": 1}

def generate(maxl):
    """All initial states of XcpData with MaxL = maxl, as scenario dicts (TLC enumerates them)."""
    cfgp = os.path.join(scratch(), "Gen_Data_%d.cfg" % maxl)
    src = open(os.path.join(tlc.SPEC, "Gen_Data.cfg")).read().replace("MaxL = 4", "MaxL = %d" % maxl)
    with open(cfgp, "w") as f:
        f.write(src)
    r = tlc.run("Gen_Data", cfgp, workers=4, want_tags={"SCEN"}, timeout=600)
    scs = [v for t, v in r.printed if t == "SCEN"]
    for i, s in enumerate(scs):
        s["maxl"] = maxl
        s["id"] = "L%d-a%s-%s-b%d-%s-%s-p%d" % (s["len"], "".join(map(str, s["salloc"])) or "0", s["driver"], s["bs"], s["reflink"], s["kcopy"], s["prior"])
    return scs, r

def runs_of(classes):
    """maximal runs [cls, first, last] (1-based) of a list of cell classes"""
    out = []
    for i, c in enumerate(classes, 1):
        if out and out[-1][0] == c and out[-1][2] == i - 1:
            out[-1][2] = i
        else:
            out.append([c, i, i])
    return out

def cls_of(values):
    """read_cells values -> classes: own pattern 'D', zero 'Z', foreign 'X<k>'"""
    return ["D" if v == i else ("Z" if v == 0 else "X%d" % v) for i, v in enumerate(values, 1)]

def prior_bytes(sc, total, cell):
    if sc["prior"] == sc["len"] and sc["len"] >= 2:
        return total                       # exactly the source's length
    if sc["prior"] < max(sc["len"], 2):
        return max(1, total // 2)
    return total + cell + 5

def layout_cells(sc):
    sset = set(sc["salloc"])
    return [1 if (i + 1) in sset else 0 for i in range(sc["len"])]

LIFE_TRACE = "openat,ftruncate,ioctl,lseek,copy_file_range,pread64,read,fchmod,utimensat,fsync,fchown,fsetxattr,flistxattr"

def run_one(binary, sc, run_id, cell=None, tail=0, workers=None, plan=None, no_progress=False, block_bytes=None,
            extra=None, strace=None, keep=False, timeout=60, fsync_src=True, life=False):
    """Materialise one source file, optional prior destination; run xcp; observe destination cells and allocation."""
    root = os.path.join(scratch(), "dp-%s" % run_id)
    _rmtree(root)
    os.makedirs(root)
    dense = len(sc["salloc"]) == sc["len"]
    if cell is None:
        cell = 1 if dense else 4096
    src = os.path.join(root, "src")
    dstp = os.path.join(root, "dst")
    fsmat.write_cells(src, layout_cells(sc), cell, tail=tail, fid=1)
    total = sc["len"] * cell + tail
    if sc["prior"] > 0:
        # same length, shorter (about half, at least 1 byte) or longer (beyond the source's end); content: 0xAA
        n = prior_bytes(sc, total, cell)
        with open(dstp, "wb") as f:
            f.write(b"\xaa" * n)
            f.flush(); os.fsync(f.fileno())
    argv = ["--driver", sc["driver"], "--reflink", sc["reflink"], "--workers", str(workers or 2)]
    maxl = sc.get("maxl", sc["len"])
    if block_bytes is not None:
        argv += ["--block-size", str(block_bytes)]
    elif sc["bs"] > maxl and no_progress:
        argv += ["--no-progress"]
    else:
        argv += ["--block-size", str(sc["bs"] * cell)]
    argv += list(extra or [])
    argv += ["src", "dst"]
    env = {}
    items = []
    if sc["kcopy"] == "uspace":
        items.append("cfr.errno=%d" % ERRNO_FALLBACK[sc.get("fallback_errno", "ENOSYS")])
    if plan:
        items += plan
    if items:
        env["XCP_VERIF_PLAN"] = ";".join(items)
    st = None
    if life and strace is None:
        strace = {"trace": LIFE_TRACE}
    if strace is not None:
        st = dict(strace); st["out"] = root + ".strace"
    sst = os.stat(src)
    smap = fsmat.data_map(src)
    r = runner.run_xcp(binary, argv, cwd=root, env=env, strace=st, timeout=timeout)
    sset = set(sc["salloc"])
    obs = {"id": sc["id"] + "#" + run_id, "len": sc["len"], "cell": cell, "tail": tail,
           "sruns": runs_of(["D" if i in sset else "Z" for i in range(1, sc["len"] + 1)]), "driver": sc["driver"],
           "bs": sc["bs"], "reflink": sc["reflink"], "kcopy": sc["kcopy"], "prior": sc["prior"],
           "exit": (-9 if r.exit is None else r.exit) if not r.timed_out else -7,
           "sblocks": sst.st_blocks, "smap": smap, "fsblock": 4096,
           "holesDetectable": not any("fiemap=unsupported" in x for x in items),
           "slackBlocks": 8 + 8 * len(smap), "growBase": -1}
    if os.path.exists(dstp):
        if fsync_src:
            fd = os.open(dstp, os.O_RDONLY); os.fsync(fd); os.close(fd)
        n, cells, t, tc = fsmat.read_cells(dstp, cell, fid=1) if cell > 0 and sc["len"] > 0 or True else (0, [], 0, 0)
        # read_cells splits by cell; the tail (if any) is whatever follows the last whole cell
        want_cells = sc["len"]
        if len(cells) > want_cells:
            # destination longer than the source: report the surplus in dlen; keep cells beyond as they are
            pass
        dst_st = os.stat(dstp)
        obs.update({"dlen": n, "druns": runs_of(cls_of(cells)), "dtail": t, "dtailc": tc, "dblocks": dst_st.st_blocks, "dmap": fsmat.data_map(dstp)})
    else:
        obs.update({"dlen": -1, "druns": [], "dtail": 0, "dtailc": 0, "dblocks": 0, "dmap": []})
    obs["_life"] = None
    if life and st and os.path.exists(st["out"]) and tail == 0:
        if block_bytes is not None:
            mbs = block_bytes // cell if block_bytes % cell == 0 else None
        elif sc["bs"] > maxl and no_progress:
            mbs = 1000000
        else:
            mbs = sc["bs"]
        evs = lifecycle_events(st["out"], root, sc, cell) if mbs else None
        if evs is not None and obs["dlen"] >= 0 and obs["dlen"] % cell == 0:
            prior_cells = 0
            if sc["prior"] > 0:
                nb = prior_bytes(sc, total, cell)
                prior_cells = (nb + cell - 1) // cell
            obs["_life"] = evs
            obs["_lifesc"] = {"len": sc["len"], "salloc": sc["salloc"], "driver": sc["driver"], "bs": mbs, "reflink": sc["reflink"], "kcopy": sc["kcopy"],
                              "prior": prior_cells, "cell": cell, "dcells": [v if v >= 0 else 1000 - v for v in cells], "clamped": bool(plan)}
        try:
            os.unlink(st["out"])
        except OSError:
            pass
    obs["_run"] = {"stderr": r.stderr[-500:], "argv": argv, "env": env, "trace": st["out"] if st else None, "root": root,
                   "timed_out": r.timed_out, "wall": r.wall}
    if not keep:
        _rmtree(root)
    return obs

def strip(o):
    return {k: v for k, v in o.items() if not k.startswith("_")}

def judge(observations, chunk=3000):
    verdicts = []
    stats = {"generated": 0, "distinct": 0, "wall": 0.0}
    for i in range(0, len(observations), chunk):
        part = observations[i:i + chunk]
        r = tlc.monitor("Trace_Data", "Trace_Data.cfg", [strip(o) for o in part])
        vs = [v for t, v in r.printed if t == "VERDICT"]
        if len(vs) != len(part):
            raise ToolError("Trace_Data produced %d verdicts for %d observations\n%s" % (len(vs), len(part), r.out[-2000:]))
        verdicts += vs
        stats["generated"] += r.generated; stats["distinct"] += r.distinct; stats["wall"] += r.wall
    return verdicts, stats

def model_check(maxl, deviations="{}", workers=12, timeout=3000, invariants=None):
    cfgp = os.path.join(scratch(), "MC_Data_%d_%d.cfg" % (maxl, abs(hash(deviations)) % 10000))
    src = open(os.path.join(tlc.SPEC, "MC_Data.cfg")).read().replace("MaxL = 4", "MaxL = %d" % maxl)
    src = src.replace("Deviations = {}", "Deviations = " + deviations)
    if invariants is not None:
        import re
        src = re.sub(r"INVARIANTS .*", "INVARIANTS " + " ".join(invariants), src)
    with open(cfgp, "w") as f:
        f.write(src)
    return tlc.run("MC_Data", cfgp, workers=workers, timeout=timeout)

# ------------------------------------------------------------------ Layer-A trace validation (fidelity)
def lifecycle_events(trace_path, root, sc, cell):
    """strace log of one single-file run -> events of TraceA_Data (units: cells)."""
    from . import s2e
    src = os.path.join(root, "src"); dstp = os.path.join(root, "dst")
    ev = []
    pend_seek = None
    saw_fin = False
    uspace = sc["kcopy"] == "uspace"
    def cells(n):
        return n // cell if n % cell == 0 else None
    recs = [r for r in s2e.parse(trace_path) if r["kind"] == "sys" and r["seq_ret"] is not None]
    recs.sort(key=lambda r: r["seq_ret"])
    for r in recs:
        s, a = r["sys"], r["args"]
        if s == "openat" and r["ret"] is not None and r["ret"] >= 0:
            p = r["retpath"] and s2e.unquote('"' + r["retpath"] + '"')
            if p == dstp and "O_CREAT" in a[2]:
                ev.append({"e": "create", "n": 0, "ans": "", "d": 0, "h": 0, "off": 0, "req": 0, "ret": 0, "ok": "O_TRUNC" in a[2]})
            continue
        fd, path = s2e.fdpath(a[0]) if a else (None, None)
        if s == "ftruncate" and path == dstp:
            n = cells(int(a[1]))
            ev.append({"e": "alloc", "n": -1 if n is None else n, "ans": "", "d": 0, "h": 0, "off": 0, "req": 0, "ret": 0, "ok": True})
        elif s == "ioctl" and len(a) > 1 and "FICLONE" in a[1] and path == dstp:
            ans = "ok" if r["ret"] == 0 else ("unsupported" if r["errno"] in ("EOPNOTSUPP", "EINVAL", "EXDEV", "ETXTBSY", "EBADF") else "error")
            ev.append({"e": "clone", "n": 0, "ans": ans, "d": 0, "h": 0, "off": 0, "req": 0, "ret": 0, "ok": True})
        elif s == "ioctl" and len(a) > 1 and "FIEMAP" in a[1] and path == src:
            if not ev or ev[-1]["e"] != "fiemap":
                ev.append({"e": "fiemap", "n": 0, "ans": "", "d": 0, "h": 0, "off": 0, "req": 0, "ret": 0, "ok": r["ret"] == 0})
        elif s == "lseek" and path == src and len(a) > 2 and a[2] in ("SEEK_DATA", "SEEK_HOLE"):
            val = r["ret"] if r["ret"] is not None and r["ret"] >= 0 else sc["len"] * cell
            if a[2] == "SEEK_DATA":
                pend_seek = val
            elif pend_seek is not None:
                ev.append({"e": "seek", "n": 0, "ans": "", "d": pend_seek // cell, "h": val // cell, "off": 0, "req": 0, "ret": 0, "ok": True})
                pend_seek = None
        elif s == "copy_file_range" and not uspace:
            fo, po = s2e.fdpath(a[2])
            if po != dstp or r["ret"] is None or r["ret"] < 0:
                continue
            off = a[3].strip("[]")
            o, q, t = (-1 if off == "NULL" else cells(int(off))), cells(int(a[4])), cells(r["ret"])
            if None in (o, q, t):
                return None
            ev.append({"e": "copy", "n": 0, "ans": "", "d": 0, "h": 0, "off": o, "req": q, "ret": t, "ok": True})
        elif uspace and s in ("pread64", "read") and path == src and r["ret"] is not None and r["ret"] > 0:
            o = cells(int(a[3])) if s == "pread64" else -1
            q, t = cells(int(a[2])), cells(r["ret"])
            if None in (o, q, t):
                return None
            ev.append({"e": "copy", "n": 0, "ans": "", "d": 0, "h": 0, "off": o, "req": q, "ret": t, "ok": True})
        elif s in ("fchmod", "utimensat", "fsync", "fchown", "fsetxattr", "flistxattr") and (path == dstp or path == src) and not saw_fin:
            saw_fin = True
            ev.append({"e": "fin", "n": 0, "ans": "", "d": 0, "h": 0, "off": 0, "req": 0, "ret": 0, "ok": True})
    return ev

def fidelity(observations):
    """observations with '_life' (events) -> (accepted ids, rejected ids, stats).  One TLC run for the whole batch."""
    recs = []
    for o in observations:
        if o.get("_life") is None:
            continue
        recs.append({"id": o["id"], "sc": o["_lifesc"], "ev": o["_life"]})
    if not recs:
        return set(), set(), None
    path = tempfile.mktemp(prefix="lifeA-", suffix=".ndjson", dir=scratch())
    tlc.write_ndjson(path, recs)
    r = tlc.run("TraceA_Data", "TraceA_Data.cfg", workers=4, env={"TRACE": path}, timeout=1800, want_tags={"ACCEPT"})
    os.unlink(path)
    acc = {v["id"] for t, v in r.printed if t == "ACCEPT"}
    return acc, {x["id"] for x in recs} - acc, r
