"""Event plane: strace logs of real runs -> NDJSON records for the contract monitor Trace_Ev."""
from .common import rmtree as _rmtree
import os
from . import s2e, tlc
from .common import ToolError

FIELDS = ("ev", "ph", "tid", "kind", "path", "region", "ret", "errno", "acc", "trunc", "creat", "src")

def classifier(root, src_prefixes, dst_prefixes):
    root = root.rstrip("/")
    srcs = [os.path.join(root, p) for p in src_prefixes]
    dsts = [os.path.join(root, p) for p in dst_prefixes]
    def classify(path):
        if not path:
            return None
        if path.endswith(" (deleted)"):
            path = path[:-10]
        if not (path == root or path.startswith(root + "/")):
            return None
        for d in dsts:
            if path == d or path.startswith(d + "/") or path.startswith(d + ".~"):
                return "DST"
        for s in srcs:
            if path == s or path.startswith(s + "/"):
                return "SRC"
        return "OTHER"
    return classify

def records(run_id, trace_path, root, src_prefixes, dst_prefixes, cfg, exit_code, protected=(), special=(), peak_base=-1, fd_slack=0,
            must_succeed=False, missing=0, only=None):
    """reset + events + end for one run.  Paths are made relative to the sandbox root."""
    cl = classifier(root, src_prefixes, dst_prefixes)
    root = root.rstrip("/")
    def rel(p):
        if p and p.endswith(" (deleted)"):
            p = p[:-10]
        if p and (p == root or p.startswith(root + "/")):
            return p[len(root) + 1:] or "."
        return p or ""
    out = [{"ev": "reset", "run": run_id, "driver": cfg.get("driver", ""), "fsync": bool(cfg.get("fsync")), "reflink": cfg.get("reflink", "auto"),
            "protected": list(protected), "special": list(special), "peakBase": peak_base, "fdSlack": fd_slack, "workers": int(cfg.get("workers") or 0), "lite": only is not None}]
    n = 0
    for e in s2e.events(trace_path, cl):
        if e["ev"] in ("exit", "read", "seek", "readdir", "fiemap"):
            continue
        if only is not None and e["ev"] not in only:
            continue
        d = {k: e.get(k, "") for k in FIELDS}
        d["path"] = rel(e["path"]); d["src"] = rel(e.get("src", ""))
        d["ret"] = e["ret"] if isinstance(e["ret"], int) else -99
        out.append(d)
        n += 1
    out.append({"ev": "end", "exit": exit_code, "mustSucceed": bool(must_succeed), "missing": missing, "partial": only is not None})
    return out, n

def judge(all_records, nruns, chunk_events=150000):
    """all_records: list of per-run record lists.  Returns verdict list aligned with runs."""
    verdicts = []
    stats = {"generated": 0, "distinct": 0, "wall": 0.0, "events": 0}
    batch, size = [], 0
    def flush():
        nonlocal batch, size
        if not batch:
            return
        flat = [r for rs in batch for r in rs]
        m = tlc.monitor("Trace_Ev", "Trace_Ev.cfg", flat, timeout=3000, xmx="8g")
        vs = [v for t, v in m.printed if t == "VERDICT"]
        if len(vs) != len(batch):
            raise ToolError("Trace_Ev produced %d verdicts for %d runs\n%s" % (len(vs), len(batch), m.out[-3000:]))
        verdicts.extend(vs)
        stats["generated"] += m.generated; stats["distinct"] += m.distinct; stats["wall"] += m.wall; stats["events"] += len(flat)
        batch, size = [], 0
    for rs in all_records:
        batch.append(rs); size += len(rs)
        if size >= chunk_events:
            flush()
    flush()
    return verdicts, stats

def life_judge(all_records):
    """Layer-A life-cycle replay (TraceA_Life) of the same records; returns list of {run, drift, files} per run."""
    flat = [r for rs in all_records for r in rs]
    m = tlc.monitor("TraceA_Life", "TraceA_Life.cfg", flat, timeout=3000, xmx="8g", tag="LIFE")
    vs = [v for t, v in m.printed if t == "LIFE"]
    if len(vs) != len(all_records):
        raise ToolError("TraceA_Life produced %d verdicts for %d runs\n%s" % (len(vs), len(all_records), m.out[-2000:]))
    return vs, m

# ------------------------------------------------------------------ traced tree runs
def traced_tree_run(binary, sc, driver, run_id, cfg, plan=None, workers=None, special=(), protected=(), peak_base=-1, fd_slack=0,
                    inject=None, timeout=120, src_prefixes=None, dst_prefixes=("d",), nofile=None, extra_strace=None):
    """Run a name-space scenario under strace; returns (observation, event records, n_events)."""
    from . import nsplane
    import shutil
    env = {}
    if plan:
        env["XCP_VERIF_PLAN"] = ";".join(plan)
    st = {}
    if inject:
        st["inject"] = inject
    if extra_strace:
        st["extra"] = extra_strace
    cfg = dict(cfg, driver=driver, workers=workers or 0)
    o = nsplane.run_one(binary, sc, driver, run_id, strace=st, workers=workers, env=env, keep=True, timeout=timeout)
    srcs = src_prefixes or sorted({a["norm"][0] for a in sc["sources"] if a["norm"] and a["norm"][0] not in (".", "/ABS")} or {"s"})
    recs, n = records(run_id, o["_run"]["trace"], o["_run"]["root"], srcs, list(dst_prefixes), cfg, o["exit"], protected=protected,
                      special=special, peak_base=peak_base, fd_slack=fd_slack)
    _rmtree(o["_run"]["root"])
    try:
        os.unlink(o["_run"]["trace"])
    except OSError:
        pass
    return o, recs, n
