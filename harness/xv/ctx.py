"""Per-check context: statistics, violations, known findings, evidence file, exit status."""
import json, os, sys, time
from .common import VERIF, EVID, seed, log, ToolError

KNOWN = os.path.join(VERIF, "known_findings.json")

class Ctx:
    def __init__(self, pid, tier):
        self.pid, self.tier, self.seed = pid, tier, seed()
        self.t0 = time.time()
        self.states = 0; self.transitions = 0
        self.traces = 0                 # real runs whose observation TLC judged
        self.evaluations = 0
        self.nontrivial = set()
        self.samples = []
        self.violations = []            # list of (what, replay_path)
        self.known_seen = []
        self.notes = {}
        self.rule = ""
        self.assumptions = []
        self.tlc_jobs = []
        self.drift = []
        self.other = []                 # violations of *other* properties noticed while checking this one
        self.exhaustive = False
        try:
            self.known = [k for k in json.load(open(KNOWN)) if k.get("status") == "known" and k.get("property") == pid]
        except (OSError, ValueError):
            self.known = []
        os.makedirs(os.path.join(EVID, "replay"), exist_ok=True)

    # ---- TLC accounting
    def tlc(self, name, r):
        self.states += r.distinct
        self.transitions += r.generated
        self.tlc_jobs.append({"job": name, "distinct_states": r.distinct, "states_generated": r.generated, "depth": r.depth,
                              "wall_s": round(r.wall, 2)})

    def model_violation(self, name, r):
        """TLC found the property violated on the design (Layer A)."""
        self.violation("Layer-A model %s: %s violated" % (name, r.violated), {"kind": "model", "job": name, "cmd": r.cmd,
                       "violated": r.violated, "trace": r.error_trace}, sig={"kind": "model", "job": name})

    # ---- cases
    def case(self, key=None, nontrivial=False):
        self.evaluations += 1
        if nontrivial and key is not None:
            self.nontrivial.add(key)

    def sample(self, obj, limit=6):
        if len(self.samples) < limit:
            self.samples.append(obj)

    # ---- violations
    def violation(self, what, replay, sig=None):
        sig = sig or {}
        for k in self.known:
            if all(sig.get(a) == b for a, b in k.get("match", {}).items()):
                line = "KNOWN-FINDING: property=%s %s" % (self.pid, k.get("what", what))
                if line not in self.known_seen:
                    self.known_seen.append(line)
                    print(line, flush=True)
                return False
        n = len(self.violations) + 1
        path = os.path.join(EVID, "replay", "%s-%d.json" % (self.pid, n))
        if n <= 25:
            with open(path, "w") as f:
                json.dump({"property": self.pid, "what": what, "sig": sig, "replay": replay}, f, indent=1, default=str)
        self.violations.append((what, path))
        if n <= 25:
            print("VIOLATION property=%s replay=%s" % (self.pid, path), flush=True)
            log("  -> " + what)
        return True

    def finish(self):
        wall = time.time() - self.t0
        cov = {"states": max(self.states, 0), "transitions": max(self.transitions, 0),
               "traces_validated_against_impl": self.traces,
               "samples": self.samples or [{"note": "no sample recorded"}],
               "evaluations": self.evaluations, "distinct_nontrivial": len(self.nontrivial), "rule": self.rule,
               "exhaustive": self.exhaustive, "tlc_jobs": self.tlc_jobs, "model_drift": self.drift[:20],
               "known_findings_seen": self.known_seen, "other_property_observations": self.other[:20]}
        cov.update(self.notes)
        ev = {"property_id": self.pid, "tier": self.tier, "seed": self.seed, "level": "model_checking", "coverage": cov,
              "assumptions": self.assumptions, "wall_s": round(wall, 2), "violations": len(self.violations)}
        with open(os.path.join(EVID, self.pid + ".json"), "w") as f:
            json.dump(ev, f, indent=1, default=str)
        log("%s %s: %d TLC states, %d real runs judged, %d evaluations, %d violations, %.1fs" %
            (self.pid, self.tier, self.states, self.traces, self.evaluations, len(self.violations), wall))
        return 1 if self.violations else 0
