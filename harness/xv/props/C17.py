"""C17: --gitignore copies exactly the entries the root .gitignore does not exclude (git's pattern semantics)."""
from ..common import rmtree as _rmtree
import json, os, shutil, subprocess
from .. import build, runner, tlc
from ..common import rng, scratch, ToolError

def seg(s):
    return "**" if s == ["**"] else "".join(s)

def render(p):
    body = "/".join(seg(s) for s in p["segs"])
    if p["anch"] and len(p["segs"]) == 1:
        body = "/" + body
    return ("!" if p["neg"] else "") + body + ("/" if p["dir"] else "")

def cname(comp):
    n = "".join(comp)
    return ".gitignore" if n == ".g" else n

TREE = [(["a"], "d"), (["a", "a"], "f"), (["a", "b"], "d"), (["a", "b", "b"], "f"), (["a", "b", "a"], "d"), (["a", "ab"], "f"), (["a", ".a"], "f"), (["a", "a.b"], "f"),
        (["b"], "d"), (["b", "a"], "f"), (["b", "b"], "f"), (["b", "ab"], "f"), (["b", ".a"], "d"), (["b", ".a", "a"], "f"), (["b", "a.b"], "f"),
        (["ab"], "f"), ([".a"], "f"), (["a.b"], "f"), ([".gitignore"], "f"), (["ld"], "l")]

def make_tree(root):
    os.makedirs(root, exist_ok=True)
    for comps, k in TREE:
        p = os.path.join(root, *comps)
        if k == "d":
            os.makedirs(p, exist_ok=True)
        elif k == "l":
            os.symlink("a", p)
        else:
            os.makedirs(os.path.dirname(p), exist_ok=True)
            with open(p, "w") as f:
                f.write("/".join(comps))

def keep_paths(keep):
    return {"/".join(cname(c) for c in path) for path in keep}

def git_check(lists, workdir):
    """spec vs git: returns list of disagreements (must be empty)."""
    root = os.path.join(workdir, "gitcheck")
    _rmtree(root)
    subprocess.run(["git", "init", "-q", root], check=True)
    make_tree(root)
    paths = ["/".join(c) for c, k in TREE]
    bad = []
    for l in lists:
        with open(os.path.join(root, ".gitignore"), "w") as f:
            f.write("\n".join(render(p) for p in l["pats"]) + "\n")
        r = subprocess.run(["git", "-C", root, "check-ignore", "--no-index", "--stdin", "-v", "-n"], input="\n".join(paths) + "\n", capture_output=True, text=True)
        ign = set()
        for line in r.stdout.splitlines():
            src, path = line.split("\t")
            pat = src.split(":", 2)[2] if src.count(":") >= 2 else ""
            if pat and not pat.startswith("!"):
                ign.add(path)
        want_keep = keep_paths(l["keep"])
        git_keep = set(paths) - ign
        if git_keep != want_keep:
            bad.append({"pats": [render(p) for p in l["pats"]], "spec_only_keeps": sorted(want_keep - git_keep), "git_only_keeps": sorted(git_keep - want_keep)})
    _rmtree(root)
    return bad

def fault_pass(ctx, binary, work, lists):
    """Single injected stat failures while walking with --gitignore: exit 0 must still mean 'exactly the non-excluded entries'."""
    jobs = []
    dirs = ["/".join(c) for c, k in TREE if k == "d"] + ["ld"]
    for li, l in enumerate(lists):
        for drv in ("parfile", "parblock"):
            for sysc in ("statx", "newfstatat"):
                for when in range(1, 41, 3):
                    jobs.append((li, l, drv, sysc, when, None))
                # the same fault aimed at one object: only calls that touch this path are candidates (strace -P)
                for dpath in dirs:
                    for when in (1, 2, 3):
                        jobs.append((li, l, drv, sysc, when, dpath))
    def one(j):
        li, l, drv, sysc, when, only = j
        root = os.path.join(work, "f%d-%s-%s-%d-%s" % (li, drv, sysc, when, (only or "any").replace("/", "_")))
        _rmtree(root); os.makedirs(root)
        src = os.path.join(root, "src"); make_tree(src)
        with open(os.path.join(src, ".gitignore"), "w") as f:
            f.write("\n".join(render(p) for p in l["pats"]) + "\n")
        rr = runner.run_xcp(binary, ["--driver", drv, "-r", "--gitignore", src, "dst"], cwd=root, timeout=60,
                            strace={"out": root + ".st", "trace": sysc, "inject": ["%s:error=EIO:when=%d" % (sysc, when)],
                                    "extra": ["-P", os.path.join(src, only)] if only else []})
        got = []
        dst = os.path.join(root, "dst")
        for d, ds, fs in os.walk(dst):
            for x in ds + fs:
                got.append(os.path.relpath(os.path.join(d, x), dst))
        _rmtree(root)
        try:
            os.unlink(root + ".st")
        except OSError:
            pass
        def comps(rel):
            return [list(".g") if c == ".gitignore" else list(c) for c in rel.split("/")]
        return {"id": "fault/%d/%s/%s/%d/%s" % (li, drv, sysc, when, only or "any"), "pats": l["pats"], "obs": [comps(g) for g in sorted(got)], "gitignore": True, "_exit": rr.exit, "_got": sorted(got)}
    res = runner.pmap(one, jobs)
    ok0 = [r for r in res if r["_exit"] == 0]
    if not ok0:
        return
    m = tlc.monitor("Trace_GI", "Trace_GI.cfg", [{a: b for a, b in x.items() if not a.startswith("_")} for x in ok0])
    vs = [v for t, v in m.printed if t == "VERDICT"]
    ctx.states += m.distinct; ctx.transitions += m.generated
    for rec, v in zip(ok0, vs):
        ctx.traces += 1; ctx.case(rec["id"], True)
        if not v["ok"]:
            ctx.violation("C17: %s: exit 0 but %d excluded entries were copied and %d non-excluded ones are missing: %s" % (rec["id"], v["extra"], v["missing"], rec["_got"]),
                          {"kind": "c17-fault", "id": rec["id"], "got": rec["_got"]}, sig={"kind": "fault"})
    ctx.notes["stat_fault_runs"] = len(res); ctx.notes["stat_fault_runs_exit0_judged"] = len(ok0)

def run(ctx):
    binary = build.xcp()
    quick = ctx.tier == "quick"
    r = tlc.run("XcpGitignore", "MC_GI.cfg", workers=8, want_tags={"GI"}, timeout=1800)
    ctx.tlc("XcpGitignore: all pattern lists of <= 2 lines over the token grammar; sanity laws as invariants; expected copied set per list", r)
    if r.violated:
        ctx.model_violation("XcpGitignore", r)
    lists = [v for t, v in r.printed if t == "GI"]
    rnd = rng("C17")
    sample = lists if not quick else rnd.sample(lists, 450)
    ctx.exhaustive = not quick
    work = os.path.join(scratch(), "c17")
    os.makedirs(work, exist_ok=True)
    bad = git_check(sample, work)
    ctx.notes["spec_vs_git_lists_checked"] = len(sample)
    if bad:
        raise ToolError("XcpGitignore disagrees with git check-ignore on %d lists (specification error): %s" % (len(bad), bad[:3]))
    jobs = []
    for i, l in enumerate(sample):
        for drv in ("parfile", "parblock"):
            spelling = ["abs", "rel-a"][(i + (drv == "parblock")) % 2]
            jobs.append((i, l, drv, spelling, True))
    for drv in ("parfile", "parblock"):            # control: without the option nothing is filtered
        jobs.append((-1, rnd.choice(sample), drv, "abs", False))
    def one(j):
        i, l, drv, spelling, flag = j
        root = os.path.join(work, "r%d-%s" % (i, drv))
        _rmtree(root); os.makedirs(root)
        srcname = "a" if spelling == "rel-a" else "src"
        src = os.path.join(root, srcname)
        make_tree(src)
        lines = []
        for p in l["pats"]:
            rr = rng("C17c", i, drv)
            if rr.random() < 0.3: lines.append("# comment " + render(p))
            if rr.random() < 0.2: lines.append("")
            lines.append(render(p))
        with open(os.path.join(src, ".gitignore"), "w") as f:
            f.write("\n".join(lines) + "\n")
        argv = ["--driver", drv, "-r"] + (["--gitignore"] if flag else []) + [srcname if spelling == "rel-a" else src, "dst"]
        rr = runner.run_xcp(binary, argv, cwd=root, timeout=60)
        got = []
        dst = os.path.join(root, "dst")
        for d, ds, fs in os.walk(dst):
            for x in ds + fs:
                got.append(os.path.relpath(os.path.join(d, x), dst))
        _rmtree(root)
        def comps(rel):
            return [list(".g") if c == ".gitignore" else list(c) for c in rel.split("/")]
        return {"id": "%d/%s/%s%s" % (i, drv, spelling, "" if flag else "/noflag"), "pats": l["pats"], "obs": [comps(g) for g in sorted(got)], "gitignore": flag,
                "_exit": rr.exit, "_lines": lines, "_got": sorted(got)}
    res = runner.pmap(one, jobs)
    verdicts = []
    for k in range(0, len(res), 600):
        m = tlc.monitor("Trace_GI", "Trace_GI.cfg", [{a: b for a, b in x.items() if not a.startswith("_")} for x in res[k:k + 600]])
        verdicts += [v for t, v in m.printed if t == "VERDICT"]
        ctx.states += m.distinct; ctx.transitions += m.generated
    if len(verdicts) != len(res):
        raise ToolError("Trace_GI: %d verdicts for %d records" % (len(verdicts), len(res)))
    for (i, l, drv, spelling, flag), rec, v in zip(jobs, res, verdicts):
        ctx.traces += 1
        keep = keep_paths(l["keep"])
        ctx.case(rec["id"], 0 < len(keep) < len(TREE))
        if not v["ok"]:
            ctx.violation("C17: .gitignore %s (%s, source spelled %s, flag=%s): %d entries missing, %d extra; expected %s got %s (exit %s)" %
                          (rec["_lines"], drv, spelling, flag, v["missing"], v["extra"], sorted(keep) if flag else "everything", rec["_got"], rec["_exit"]),
                          {"kind": "c17", "lines": rec["_lines"], "driver": drv, "spelling": spelling, "expected": sorted(keep), "got": rec["_got"]},
                          sig={"lines": "|".join(rec["_lines"]), "driver": drv})
    fault_pass(ctx, binary, work, [l for l in sample if any(p["dir"] and not p["neg"] for p in l["pats"]) and len(keep_paths(l["keep"])) < len(TREE) - 2][:3 if ctx.tier == "quick" else 12])
    ctx.sample({"gitignore_lines": res[0]["_lines"], "copied": res[0]["_got"]}); ctx.sample({"gitignore_lines": res[7]["_lines"], "copied": res[7]["_got"]})
    ctx.rule = ("pattern lists of <= 2 lines from {literal, *, ?, leading /, trailing /, !, s/t, **/s, s/**, a/**/b} over {a, b, .}, with comment and "
                "blank lines interleaved, against a fixed 20-entry tree (nested directories, hidden files, the .gitignore itself, a link to a "
                "directory); %s of the %d lists; the TLA+ matcher is cross-checked against `git check-ignore --no-index` on every list used; xcp run "
                "with both drivers, absolute and relative source spellings; TLC (Trace_GI): copied set = Copied(patterns, tree). non-trivial = list "
                "that excludes at least one and keeps at least one entry; distinct by (list, driver)" % ("all" if not quick else "a seeded sample of %d" % len(sample), len(lists)))

def replay(ctx, path):
    print(open(path).read()[:3000])
