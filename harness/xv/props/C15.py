"""C15: reflink modes keep their contract: never clones, always insists, auto falls back."""
import json
from .. import build, dataplane, evplane, nsplane, runner, tlc
from ..nsplane import E, SC, tree
from ..common import rng, ToolError

UNSUPPORTED = {"EOPNOTSUPP": 95, "EINVAL": 22, "EXDEV": 18, "ETXTBSY": 26}
HARD = {"EIO": 5, "EPERM": 1, "ENOSPC": 28}

def trees(rnd, quick):
    sp1 = E("s/sp", "file", "C15-sparse"); sp1["meta"]["sparse"] = [1, 0, 0, 1, 0]
    sp2 = E("s/sp40", "file", "C15-sparse40"); sp2["meta"]["sparse"] = [1, 0] * 36
    big = E("s/big", "file", "C15-big"); big["meta"]["data"] = bytes(range(1, 200)) * 40
    out = {
        "sparse": ([E("s", "dir"), sp1, sp2, big, E("s/e", "file", "E")], True),
        "overwrite": (tree("s", {"a": "F1", "b": "F2", "e": "E"}) + tree("d", {"s": {"a": "G1", "e": "G2", "b": "E"}}), True),
        "single": ([E("s", "file", "F1")], False),
        "single-empty": ([E("s", "file", "E")], False),
        "small": (tree("s", {"a": "F1", "b": "F2", "e": "E", "sub": {"c": "F3", "e2": "E"}, "l": ("link", "a")}), True),
        "empties": (tree("s", {"e1": "E", "e2": "E", "d": {"e3": "E"}}), True),
        "many": (tree("s", {("f%02d" % i): "F%d" % (i % 9 + 1) for i in range(24)}), True),
    }
    # seeded random shapes: nesting, empty / small / multi-block files, links, an older copy at the destination
    for i in range(2 if quick else 40):
        shape, old = {}, {}
        def fill(sh, o, depth):
            for j in range(rnd.randint(1, 5)):
                r = rnd.random()
                if r < 0.2 and depth < 3:
                    sh["d%d" % j] = {}; o["d%d" % j] = {}
                    fill(sh["d%d" % j], o["d%d" % j], depth + 1)
                elif r < 0.35:
                    sh["e%d" % j] = "E"
                elif r < 0.45:
                    sh["l%d" % j] = ("link", "nowhere")
                else:
                    sh["f%d" % j] = "F%d" % rnd.randint(1, 9)
                    if rnd.random() < 0.3:
                        o["f%d" % j] = rnd.choice(["G1", "E"])
        fill(shape, old, 0)
        fs = tree("s", shape) + (tree("d", {"s": old}) if rnd.random() < 0.5 else [])
        out["rand%d" % i] = (fs, True)
    return out

def run(ctx):
    binary = build.xcp()
    quick = ctx.tier == "quick"
    r = dataplane.model_check(5 if quick else 6)
    ctx.tlc("XcpData: NeverClones, AlwaysClones, CloneBeforeData, AutoFallsBack, OneClone", r)
    if r.violated:
        ctx.model_violation("MC_Data", r)
    jobs = []
    answers = [("real", None)] + [("unsupported:" + k, "clone=errno:%d" % v) for k, v in UNSUPPORTED.items()] + \
              [("error:" + k, "clone=errno:%d" % v) for k, v in HARD.items()] + [("ok", "clone=emulate")]
    rnd = rng("C15")
    for tname, (fs, rec) in trees(rnd, quick).items():
        for drv in ("parfile", "parblock"):
            for mode in ("auto", "never", "always"):
                for aname, plan in answers:
                    if quick and aname.startswith(("unsupported:EINVAL", "unsupported:ETXTBSY", "error:EPERM", "error:ENOSPC")) and tname not in ("small",):
                        continue
                    sc = SC("%s-%s-%s" % (tname, mode, aname), fs, ["s"], "d", r=rec, extra=["--reflink", mode, "--block-size", "1000"], cls="reflink")
                    jobs.append((sc, drv, mode, aname, plan))
    def one(j):
        sc, drv, mode, aname, plan = j
        rid = "c15-%s-%s" % (sc["id"], drv)
        o, recs, n = evplane.traced_tree_run(binary, sc, drv, rid, {"reflink": mode, "fsync": False}, plan=[plan] if plan else None,
                                             workers=2 if quick else [1, 2, 4, 8][__import__("zlib").crc32(rid.encode()) % 4])
        return o, recs, n
    res = runner.pmap(one, jobs)
    verdicts, st = evplane.judge([r[1] for r in res], len(res))
    ctx.states += st["distinct"]; ctx.transitions += st["generated"]
    ctx.tlc_jobs.append({"job": "Trace_Ev verdicts", "runs": len(res), "events": st["events"], "wall_s": round(st["wall"], 2)})
    # tree/content verdicts for the fallback case (auto + unsupported => exit 0 and identical): judged by Trace_NS (C02 clause)
    nsobs = [r[0] for r in res]
    nsverd, st2 = nsplane.judge(nsobs)
    ctx.states += st2["distinct"]; ctx.transitions += st2["generated"]
    for (sc, drv, mode, aname, plan), (o, recs, n), v, nv in zip(jobs, res, verdicts, nsverd):
        ctx.traces += 1
        ctx.case((sc["id"], drv), True)
        unsupported = aname == "real" or aname.startswith("unsupported")
        viol = list(v["viol"])
        why = []
        if "C15" in viol:
            why.append("system-call contract (Trace_Ev)")
        # exit-status part of the statement
        if mode == "always" and unsupported and o["exit"] == 0 and any(e["k"] == "file" for e in sc["fs0"]):
            why.append("always + clone unsupported but exit 0")
        if mode == "auto" and (unsupported or aname == "ok") and o["exit"] != 0:
            why.append("auto + clone unavailable but exit %d" % o["exit"])
        if mode == "auto" and (unsupported or aname == "ok") and "C02" in nv["viol"]:
            why.append("auto fallback produced a different tree")
        if mode == "never" and o["exit"] != 0:
            why.append("never: exit %d" % o["exit"])
        if why:
            ctx.violation("C15: %s (%s, %s): %s" % (sc["id"], drv, aname, "; ".join(why)),
                          {"kind": "c15", "scenario": sc, "driver": drv, "mode": mode, "answer": aname, "plan": plan, "exit": o["exit"], "verdict": v,
                           "stderr": o["_run"]["stderr"]}, sig={"scenario": sc["id"], "driver": drv})
        for c in viol:
            if c != "C15":
                ctx.other.append({"clause": c, "id": sc["id"], "driver": drv})
    ctx.sample({"scenario": jobs[0][0]["id"], "events_first": res[0][1][1:6]})
    ctx.sample({"verdict": verdicts[0]})
    ctx.rule = ("trees (single file, empty file, small tree with empty files and a link, only-empty files, 24 files) x drivers x reflink "
                "{auto, never, always} x clone answered by the real filesystem (EOPNOTSUPP), by each 'unsupported' errno (EOPNOTSUPP, EINVAL, EXDEV, "
                "ETXTBSY), by a hard error (EIO, EPERM, ENOSPC) or emulated as successful (hook); strace log judged by the TLC monitor Trace_Ev, "
                "trees by Trace_NS. non-trivial = every run; distinct by (tree, mode, answer, driver)")

def replay(ctx, path):
    rep = json.load(open(path))["replay"]
    binary = build.xcp()
    o, recs, n = evplane.traced_tree_run(binary, rep["scenario"], rep["driver"], "replay", {"reflink": rep["mode"], "fsync": False},
                                         plan=[rep["plan"]] if rep["plan"] else None, workers=2)
    v, _ = evplane.judge([recs], 1)
    print(json.dumps({"exit": o["exit"], "verdict": v[0]}, indent=1))
    if "C15" in v[0]["viol"]:
        ctx.violation("C15 violated on replay", rep, sig={"scenario": rep["scenario"]["id"], "driver": rep["driver"]})
