"""C15: reflink modes keep their contract: never clones, always insists, auto falls back."""
import json
from .. import build, dataplane, evplane, nsplane, runner, tlc
from ..nsplane import E, SC, tree
from ..common import rng, ToolError

UNSUPPORTED = {"EOPNOTSUPP": 95, "EINVAL": 22, "EXDEV": 18, "ETXTBSY": 26}
HARD = {"EIO": 5, "EPERM": 1, "ENOSPC": 28}

def trees():
    out = {
        "single": ([E("s", "file", "F1")], False),
        "single-empty": ([E("s", "file", "E")], False),
        "small": (tree("s", {"a": "F1", "b": "F2", "e": "E", "sub": {"c": "F3", "e2": "E"}, "l": ("link", "a")}), True),
        "empties": (tree("s", {"e1": "E", "e2": "E", "d": {"e3": "E"}}), True),
        "many": (tree("s", {("f%02d" % i): "F%d" % (i % 9 + 1) for i in range(24)}), True),
    }
    return out

def run(ctx):
    binary = build.xcp()
    quick = ctx.tier == "quick"
    r = dataplane.model_check(5 if quick else 6)
    ctx.tlc("XcpData: NeverClones, AlwaysClones, CloneBeforeData, AutoFallsBack, OneClone", r)
    if r.violated:
        ctx.model_violation("MC_Data", r)
    jobs = []
    answers = [("real", None)] + [("unsupported:" + k, "clone=errno:%d" % v) for k, v in UNSUPPORTED.items()] + \
              [("error:" + k, "clone=errno:%d" % v) for k, v in HARD.items()] + [("ok", "clone=emulate")]
    for tname, (fs, rec) in trees().items():
        for drv in ("parfile", "parblock"):
            for mode in ("auto", "never", "always"):
                for aname, plan in answers:
                    if quick and aname.startswith(("unsupported:EINVAL", "unsupported:ETXTBSY", "error:EPERM", "error:ENOSPC")) and tname not in ("small",):
                        continue
                    sc = SC("%s-%s-%s" % (tname, mode, aname), fs, ["s"], "d", r=rec, extra=["--reflink", mode, "--block-size", "1000"], cls="reflink")
                    jobs.append((sc, drv, mode, aname, plan))
    def one(j):
        sc, drv, mode, aname, plan = j
        rid = "c15-%s-%s" % (sc["id"], drv)
        o, recs, n = evplane.traced_tree_run(binary, sc, drv, rid, {"reflink": mode, "fsync": False}, plan=[plan] if plan else None, workers=2)
        return o, recs, n
    res = runner.pmap(one, jobs)
    verdicts, st = evplane.judge([r[1] for r in res], len(res))
    ctx.states += st["distinct"]; ctx.transitions += st["generated"]
    ctx.tlc_jobs.append({"job": "Trace_Ev verdicts", "runs": len(res), "events": st["events"], "wall_s": round(st["wall"], 2)})
    # tree/content verdicts for the fallback case (auto + unsupported => exit 0 and identical): judged by Trace_NS (C02 clause)
    nsobs = [r[0] for r in res]
    nsverd, st2 = nsplane.judge(nsobs)
    ctx.states += st2["distinct"]; ctx.transitions += st2["generated"]
    for (sc, drv, mode, aname, plan), (o, recs, n), v, nv in zip(jobs, res, verdicts, nsverd):
        ctx.traces += 1
        ctx.case((sc["id"], drv), True)
        unsupported = aname == "real" or aname.startswith("unsupported")
        viol = list(v["viol"])
        why = []
        if "C15" in viol:
            why.append("system-call contract (Trace_Ev)")
        # exit-status part of the statement
        if mode == "always" and unsupported and o["exit"] == 0 and any(e["k"] == "file" for e in sc["fs0"]):
            why.append("always + clone unsupported but exit 0")
        if mode == "auto" and (unsupported or aname == "ok") and o["exit"] != 0:
            why.append("auto + clone unavailable but exit %d" % o["exit"])
        if mode == "auto" and (unsupported or aname == "ok") and "C02" in nv["viol"]:
            why.append("auto fallback produced a different tree")
        if mode == "never" and o["exit"] != 0:
            why.append("never: exit %d" % o["exit"])
        if why:
            ctx.violation("C15: %s (%s, %s): %s" % (sc["id"], drv, aname, "; ".join(why)),
                          {"kind": "c15", "scenario": sc, "driver": drv, "mode": mode, "answer": aname, "plan": plan, "exit": o["exit"], "verdict": v,
                           "stderr": o["_run"]["stderr"]}, sig={"scenario": sc["id"], "driver": drv})
        for c in viol:
            if c != "C15":
                ctx.other.append({"clause": c, "id": sc["id"], "driver": drv})
    ctx.sample({"scenario": jobs[0][0]["id"], "events_first": res[0][1][1:6]})
    ctx.sample({"verdict": verdicts[0]})
    ctx.rule = ("trees (single file, empty file, small tree with empty files and a link, only-empty files, 24 files) x drivers x reflink "
                "{auto, never, always} x clone answered by the real filesystem (EOPNOTSUPP), by each 'unsupported' errno (EOPNOTSUPP, EINVAL, EXDEV, "
                "ETXTBSY), by a hard error (EIO, EPERM, ENOSPC) or emulated as successful (hook); strace log judged by the TLC monitor Trace_Ev, "
                "trees by Trace_NS. non-trivial = every run; distinct by (tree, mode, answer, driver)")

def replay(ctx, path):
    rep = json.load(open(path))["replay"]
    binary = build.xcp()
    o, recs, n = evplane.traced_tree_run(binary, rep["scenario"], rep["driver"], "replay", {"reflink": rep["mode"], "fsync": False},
                                         plan=[rep["plan"]] if rep["plan"] else None, workers=2)
    v, _ = evplane.judge([recs], 1)
    print(json.dumps({"exit": o["exit"], "verdict": v[0]}, indent=1))
    if "C15" in v[0]["viol"]:
        ctx.violation("C15 violated on replay", rep, sig={"scenario": rep["scenario"]["id"], "driver": rep["driver"]})
