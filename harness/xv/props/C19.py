"""C19: libfs sparse maps never hide data; merge_extents never drops coverage."""
from ..common import rmtree as _rmtree
import json, os, shutil, subprocess
from .. import build, tlc, fsmat, runner
from ..common import scratch, rng, ToolError

def kernel_extents(path, maxn=2048):
    """The file's whole extent list from ONE FS_IOC_FIEMAP request (independent of libfs' paging)."""
    import fcntl, struct
    FS_IOC_FIEMAP = 0xC020660B
    hdr = struct.pack("=QQLLLL", 0, 0xFFFFFFFFFFFFFFFF, 0, 0, maxn, 0)
    buf = bytearray(hdr + bytes(56 * maxn))
    with open(path, "rb") as f:
        try:
            fcntl.ioctl(f.fileno(), FS_IOC_FIEMAP, buf)
        except OSError:
            return None
    mapped = struct.unpack_from("=L", buf, 20)[0]
    out = []
    for i in range(mapped):
        logical, physical, length = struct.unpack_from("=QQQ", buf, 32 + 56 * i)
        out.append([logical, logical + length])
    return out if mapped < maxn else None

def nonzero_runs(path, gran=4096):
    """Minimal byte runs covering every non-zero byte, merged across granules only where the data is continuous."""
    runs = []
    with open(path, "rb") as f:
        off = 0
        while True:
            b = f.read(gran)
            if not b:
                break
            if any(b):
                s = len(b) - len(b.lstrip(b"\0"))
                e = len(b.rstrip(b"\0"))
                if runs and runs[-1][1] == off and s == 0:
                    runs[-1][1] = off + e
                else:
                    runs.append([off + s, off + e])
            off += len(b)
    return runs

def make_files(root, tier):
    """name -> path of files with chosen extent structures"""
    out = {}
    def cells_file(name, cells, cell=4096, tail=0):
        p = os.path.join(root, name)
        fsmat.write_cells(p, cells, cell, tail=tail, fid=3)
        out[name] = p
    def alternating(n):
        return [1 if i % 2 == 0 else 0 for i in range(2 * n)]
    cells_file("empty", [])
    cells_file("hole-only", [0] * 8)
    cells_file("one", [1])
    cells_file("dense", [1] * 9, tail=77)
    cells_file("lead-hole", [0, 0, 0, 1, 1], tail=5)
    cells_file("trail-hole", [1, 1, 0, 0, 0])
    cells_file("start-end", [1, 0, 0, 0, 0, 0, 1], tail=1)
    for n in (2, 31, 32, 33, 70) if tier == "quick" else (2, 3, 31, 32, 33, 34, 64, 65, 70, 130):
        cells_file("alt-%d" % n, alternating(n), tail=(n * 7) % 4096)
        cells_file("alt-%d-endhole" % n, alternating(n) + [0, 0])
    cells_file("big-cells", [1, 0, 0, 1, 1, 0, 1], cell=65536, tail=12345)
    # preallocated (unwritten) extents touching written ones
    def prealloc(name, total, writes):
        p = os.path.join(root, name)
        with open(p, "wb") as f:
            os.posix_fallocate(f.fileno(), 0, total)
            for off, n in writes:
                f.seek(off); f.write(b"\x5a" * n)
            f.flush(); os.fsync(f.fileno())
        out[name] = p
    def prealloc_nosync(name, total, writes):
        p = os.path.join(root, name)
        with open(p, "wb") as f:
            os.posix_fallocate(f.fileno(), 0, total)
            os.fsync(f.fileno())
            for off, n in writes:
                f.seek(off); f.write(b"\x6b" * n)
            f.flush()                      # no fsync: the data sits in the page cache, the extents are still flagged unwritten
        out[name] = p
    prealloc_nosync("pre-mid-dirty", 8 << 20, [(2 << 20, 1 << 20)])
    prealloc_nosync("pre-two-dirty", 4 << 20, [(4096, 8192), (2 << 20, 65536)])
    p = os.path.join(root, "plain-dirty")
    with open(p, "wb") as f:                # plain sparse writes, not yet written back (delayed allocation)
        f.truncate(4 << 20); f.seek(1 << 20); f.write(b"\x6c" * 70000); f.flush()
    out["plain-dirty"] = p
    prealloc("pre-mid", 65536, [(16384, 32768)])
    prealloc("pre-end", 65536, [(49152, 16384)])
    prealloc("pre-start", 65536, [(0, 8192)])
    prealloc("pre-two", 262144, [(4096, 4096), (131072, 65536)])
    # extents number 32 and 33 (and 64/65) touch: an unwritten preallocated block followed directly by written data, so the
    # second request starts exactly where the first one's last extent ended
    for k in (32, 64):
        p = os.path.join(root, "page-touch-%d" % k)
        cells = alternating(k - 1)                      # k-1 isolated data blocks
        fsmat.write_cells(p, cells + [0, 0, 0, 0], 4096, fid=3)
        with open(p, "r+b") as f:
            base = len(cells) * 4096 + 4096
            os.posix_fallocate(f.fileno(), base, 4096)            # extent k: unwritten
            f.seek(base + 4096); f.write(b"\x44" * 4096)          # extent k+1: written, touching
            f.seek(base + 3 * 4096); f.write(b"\x55" * 777)       # a tail that leaves the size off a block multiple
            f.flush(); os.fsync(f.fileno())
        out["page-touch-%d" % k] = p
    # many extents, the last one preallocated and touching data up to an odd end of file
    p = os.path.join(root, "alt-40-pretail")
    fsmat.write_cells(p, alternating(40), 4096, fid=3)
    with open(p, "r+b") as f:
        end = os.fstat(f.fileno()).st_size
        os.posix_fallocate(f.fileno(), end, 16384)
        f.seek(end); f.write(b"\x33" * 8269)
        f.truncate(end + 8269)
        f.flush(); os.fsync(f.fileno())
    out["alt-40-pretail"] = p
    return out

def run(ctx):
    probe = build.probe()
    quick = ctx.tier == "quick"
    N, K = (8, 3) if quick else (10, 4)
    # ---- Layer A + generation: all sorted extent lists over 0..N with <= K extents
    cfgp = os.path.join(scratch(), "MC_Merge.cfg")
    open(cfgp, "w").write(open(os.path.join(tlc.SPEC, "MC_Merge.cfg")).read().replace("N = 7", "N = %d" % N).replace("K = 3", "K = %d" % K)
                          .replace("EmitLists = FALSE", "EmitLists = TRUE"))
    r = tlc.run("XcpMerge", cfgp, workers=8, want_tags={"LIST"}, timeout=3000)
    ctx.tlc("XcpMerge N=%d K=%d: contract on the transcription for every sorted list (overlapping ones included)" % (N, K), r)
    if r.violated:
        ctx.model_violation("XcpMerge", r)
    lists = [v for t, v in r.printed if t == "LIST"]
    fm = tlc.run("XcpFiemap", "MC_Fiemap.cfg", workers=4, timeout=1200)
    ctx.tlc("XcpFiemap: paged extent fetch = the kernel's list, for all extent lists (touching included), page size 2", fm)
    if fm.violated:
        ctx.model_violation("XcpFiemap", fm)
    ctx.exhaustive = True
    # ---- spec -> impl: replay every list into the real merge_extents
    inp = "\n".join(json.dumps(l["inp"]) for l in lists) + "\n"
    p = subprocess.run([probe, "merge"], input=inp, stdout=subprocess.PIPE, stderr=subprocess.PIPE, text=True, timeout=600)
    outs = [json.loads(x) for x in p.stdout.splitlines()]
    recs = []
    if p.returncode != 0 or len(outs) != len(lists):
        # a panic in the code under test is data, not a tooling failure
        ctx.violation("C19: merge_extents failed on enumerated input (exit %s, %d of %d results): %s" % (p.returncode, len(outs), len(lists), p.stderr[-300:]),
                      {"kind": "merge-crash", "stderr": p.stderr[-2000:]}, sig={"kind": "merge-crash"})
    for i, (l, o) in enumerate(zip(lists, outs)):
        recs.append({"kind": "merge", "id": "m%d" % i, "inp": l["inp"], "out": o, "nz": [], "extents": [], "merged": [], "segments": [], "hasExtents": False,
                     "kext": [], "kextKnown": False})
    # ---- real files
    root = os.path.join(scratch(), "c19")
    os.makedirs(root, exist_ok=True)
    files = make_files(root, ctx.tier)
    pr = subprocess.run([probe, "extents"] + [files[n] for n in sorted(files)], stdout=subprocess.PIPE, stderr=subprocess.PIPE, text=True, timeout=600)
    got = {}
    for line in pr.stdout.splitlines():
        j = json.loads(line); got[os.path.basename(j["file"])] = j
    frecs = []
    for name in sorted(files):
        if name not in got:
            ctx.violation("C19: libfs failed on file layout %s: %s" % (name, pr.stderr[-300:]), {"kind": "file-crash", "file": name, "stderr": pr.stderr[-2000:]},
                          sig={"kind": "file-crash", "file": name})
            continue
        j = got[name]
        has = j["extents"] is not None
        # only for files whose extents are stable (synced): writeback between the two readings may split or convert extents
        kext = kernel_extents(files[name]) if "dirty" not in name else None
        frecs.append({"kind": "file", "id": name, "inp": [], "out": [], "nz": nonzero_runs(files[name]), "kext": kext or [], "kextKnown": kext is not None,
                      "extents": [[e[0], e[1]] for e in (j["extents"] or [])], "merged": [[e[0], e[1]] for e in (j["merged"] or [])],
                      "segments": [s for s in j["segments"] if s[0] < s[1]], "hasExtents": has})
        ctx.sample({"file": name, "len": j["len"], "n_extents": len(j["extents"] or []), "n_merged": len(j["merged"] or []),
                    "n_segments": len(j["segments"]), "nonzero_runs": len(frecs[-1]["nz"])}, limit=8)
    _rmtree(root)
    # ---- verdicts by TLC
    allrecs = recs + frecs
    verdicts = []
    for i in range(0, len(allrecs), 20000):
        m = tlc.monitor("Trace_Merge", "Trace_Merge.cfg", allrecs[i:i + 20000], timeout=3000)
        verdicts += [v for t, v in m.printed if t == "VERDICT"]
        ctx.states += m.distinct; ctx.transitions += m.generated
    if len(verdicts) != len(allrecs):
        raise ToolError("Trace_Merge: %d verdicts for %d records" % (len(verdicts), len(allrecs)))
    drift = 0
    for rec, v in zip(allrecs, verdicts):
        ctx.traces += 1
        nt = len(rec["inp"]) >= 2 if rec["kind"] == "merge" else (len(rec["extents"]) >= 2 or len(rec["segments"]) >= 2)
        ctx.case(rec["id"], nt)
        if not v["ok"]:
            ctx.violation("C19: %s %s breaks the contract: %s" % (rec["kind"], rec["id"], json.dumps({k: rec[k] for k in ("inp", "out")} if rec["kind"] == "merge" else
                          {k: rec[k][:6] for k in ("nz", "extents", "merged", "segments")})[:400]), {"kind": "c19", "record": rec}, sig={"kind": rec["kind"], "id": rec["id"]})
        if not v["same"]:
            drift += 1
            if len(ctx.drift) < 10:
                ctx.drift.append({"inp": rec["inp"], "real": rec["out"]})
    ctx.notes["lists_replayed"] = len(recs); ctx.notes["files"] = len(frecs); ctx.notes["outputs_differing_from_transcription"] = drift
    ctx.sample({"list": lists[len(lists) // 2]})
    ctx.rule = ("merge: ALL sorted extent lists over offsets 0..%d with at most %d extents (overlapping/nested included), enumerated by TLC and "
                "replayed into the real merge_extents through the API probe; files: %d layouts (0, 1, 31, 32, 33, 70.. extents, data at the very "
                "start/end, odd sizes, preallocated extents touching written ones); oracle by TLC: coverage of the union, boundaries, only "
                "adjacency gaps added; every non-zero byte run inside a reported range; ranges ordered and disjoint. non-trivial = list or file "
                "with >= 2 extents/segments" % (N, K, len(frecs)))

def replay(ctx, path):
    rec = json.load(open(path))["replay"]["record"]
    m = tlc.monitor("Trace_Merge", "Trace_Merge.cfg", [rec])
    print(m.printed)
