"""C05: correct under short I/O counts and absent kernel copy / clone / extent support."""
from .. import build, dataplane, dataprop
from ..common import rng, ToolError

def policies(rr, sc, cell):
    """Clamp / errno plans (XCP_VERIF_PLAN items) applicable to a scenario; each is one real run."""
    unit = cell
    out = []
    if sc["kcopy"] == "cfr":
        out += [["cfr.max=1"], ["cfr.max=%d" % max(1, unit - 1)], ["cfr.max=%d" % (unit + 1)], ["cfr.nth=%d:%d" % (rr.randint(1, 4), max(1, unit // 2))],
                ["cfr.rand=%d" % rr.randint(1, 10 ** 6)], ["cfr.seq=" + ",".join(str(rr.choice([0, 1, unit, 3])) for _ in range(12))],
                ["cfr.errnth=%d:%d" % (rr.randint(2, 5), rr.choice([38, 18, 1]))]]        # in-kernel copy disappears midway -> user-space loop for that call
    else:
        lab = "pread" if sc["driver"] == "parblock" else "read"
        out += [[lab + ".max=1"], [lab + ".max=%d" % (unit + 1)], [lab + ".rand=%d" % rr.randint(1, 10 ** 6)],
                [lab + ".nth=%d:1" % rr.randint(1, 3)]]
        if sc["driver"] == "parblock":
            out += [["pwrite.max=%d" % max(1, unit // 2)], ["pwrite.nth=2:1"], ["pread.rand=%d" % rr.randint(1, 10 ** 6), "pwrite.rand=%d" % rr.randint(1, 10 ** 6)]]
    if len(sc["salloc"]) < sc["len"] and sc["driver"] == "parblock":
        out.append(["fiemap=unsupported"])
        out.append(["fiemap=unsupported", "cfr.max=%d" % (unit + 3)] if sc["kcopy"] == "cfr" else ["fiemap=unsupported", "pread.max=%d" % (unit + 3)])
    if sc["reflink"] == "auto":
        out.append(["clone=errno:%d" % rr.choice([95, 22, 18])])
    return out

def run(ctx):
    binary = build.xcp()
    quick = ctx.tier == "quick"
    maxl = 5 if quick else 6
    r = dataplane.model_check(maxl)
    ctx.tlc("XcpData MaxL=%d: every kernel copy/read returns ANY count 1..requested; user-space fallback; clone/extent answers free" % maxl, r)
    if r.violated:
        ctx.model_violation("MC_Data", r)
    d = dataplane.model_check(3, deviations='{"BlockJobSingleShot"}', workers=4, invariants=["Exact"])
    ctx.tlc("XcpData with BlockJobSingleShot (non-vacuity)", d)
    if d.violated != "Exact":
        raise ToolError("non-vacuity: single-shot block jobs do not violate Exact in the model")
    scs, g = dataplane.generate(maxl)
    ctx.tlc("Gen_Data MaxL=%d" % maxl, g)
    scs = [s for s in scs if s["reflink"] != "always" and s["len"] >= 1]
    rnd = rng("C05")
    scs = rnd.sample(scs, 260 if quick else 3000)
    jobs = []
    n = 0
    for sc in scs:
        rr = rng("C05", sc["id"])
        cell = rr.choice([1, 7, 4096]) if len(sc["salloc"]) == sc["len"] else 4096
        sc = dict(sc)
        if sc["kcopy"] == "uspace":
            sc["fallback_errno"] = rr.choice(["ENOSYS", "EXDEV", "EPERM"])
        for plan in policies(rr, sc, cell):
            n += 1
            simple = all(x.startswith(("cfr.max", "cfr.rand", "cfr.nth", "cfr.seq", "pread.", "read.")) for x in plan)
            jobs.append((sc, dict(run_id="p%d" % n, cell=cell, workers=rr.choice([1, 2, 4]), plan=plan, life=(cell == 1 and simple and n % 2 == 0))))
    # bigger dense files with byte-sized cells: many calls per block, several blocks
    for drv in ("parfile", "parblock"):
        for size, bs in ((1000, 64), (4097, 4096), (70000, 65536), (5, 100)):
            for kc in ("cfr", "uspace"):
                sc = dataprop.dense("D-%s-%d-%d-%s" % (drv, size, bs, kc), size, bs, drv, reflink="never", kcopy=kc)
                rr = rng("C05", sc["id"])
                for plan in policies(rr, sc, 1) + [["cfr.max=7"] if kc == "cfr" else ["pread.max=7", "read.max=7"]]:
                    n += 1
                    jobs.append((sc, dict(run_id="d%d" % n, cell=1, block_bytes=bs, workers=2, plan=plan)))
    # many blocks in flight on several workers, user-space fallback at explicit offsets (no shared cursor may be involved)
    for size, bs, w in ((70000, 1000, 4), (200000, 4096, 8), (33000, 500, 16)):
        for rep in range(3 if quick else 10):
            sc = dataprop.dense("PBU-%d-%d-w%d-r%d" % (size, bs, w, rep), size, bs, "parblock", reflink="never", kcopy="uspace")
            sc["fallback_errno"] = ["ENOSYS", "EXDEV", "EPERM"][rep % 3]
            n += 1
            jobs.append((sc, dict(run_id="u%d" % n, cell=1, block_bytes=bs, workers=w, plan=None if rep else ["pread.max=300"])))
    # EINTR on read(2) in the user-space cursor loop (strace injects it; the hook forces the fallback)
    for k in (1, 2, 3):
        sc = dataprop.dense("EINTR-%d" % k, 3000, 1000, "parfile", reflink="never", kcopy="uspace")
        n += 1
        jobs.append((sc, dict(run_id="e%d" % n, cell=1, block_bytes=1000, workers=1,
                              strace={"trace": "read", "inject": ["read:error=EINTR:when=%d+4" % k]})))
    ctx.rule = ("scenarios = seeded sample of XcpData's initial states x clamp/errno plans applied through the libfs hooks: every call <= 1 byte, "
                "<= cell-1, <= cell+1, only the n-th call short, seeded random counts, count tables, copy_file_range failing with ENOSYS/EXDEV/EPERM "
                "(always, or from the n-th call), short pread/read/pwrite, FIEMAP unsupported, FICLONE answered EOPNOTSUPP/EINVAL/EXDEV, EINTR on "
                "read (strace); thorough adds the build without the Linux backend. non-trivial = a plan that actually shortens or fails a call "
                "(every run here has one); distinct by (scenario, plan)")
    def nt(sc, kw, o):
        return bool(kw.get("plan") or kw.get("strace"))
    dataprop.run_jobs(ctx, binary, jobs, {"EXACT": True}, nt)
    for sc, kw in jobs[:4]:
        ctx.sample({"scenario": {k: v for k, v in sc.items() if k != "maxl"}, "plan": kw.get("plan"), "cell": kw.get("cell")})
    # ---- the build without the Linux backend (fallback.rs): dense scenarios, no hooks involved
    if not quick or True:
        fb = build.xcp(fallback=True)
        fjobs = []
        for i, sc in enumerate(rnd.sample([s for s in scs if s["kcopy"] == "cfr"], 60 if quick else 600)):
            rr = rng("C05fb", sc["id"])
            cell = 1 if len(sc["salloc"]) == sc["len"] else 4096
            lab = "pread" if sc["driver"] == "parblock" else "read"
            plan = rr.choice([None, [lab + ".max=1"], [lab + ".rand=%d" % rr.randint(1, 10 ** 6)], [lab + ".max=%d" % (cell + 1)], [lab + ".nth=2:1"]])
            fjobs.append((dict(sc, id="FB-" + sc["id"]), dict(run_id="f%d" % i, workers=rr.choice([1, 2, 4]), cell=cell, plan=plan)))
        for size, bs, w in ((70000, 1000, 4), (200000, 4096, 8)):
            for drv in ("parfile", "parblock"):
                for rep in range(2):
                    sc = dataprop.dense("FB-big-%s-%d-%d-r%d" % (drv, size, bs, rep), size, bs, drv, reflink="auto")
                    fjobs.append((sc, dict(run_id="fb%d%s%d" % (size, drv, rep), cell=1, block_bytes=bs, workers=w, plan=[["pread.max=300", "read.max=300"], None][rep])))
        before = ctx.traces
        obs, _ = dataprop.run_jobs(ctx, fb, fjobs, {"EXACT": True}, lambda sc, kw, o: True)
        ctx.notes["fallback_backend_runs"] = ctx.traces - before

def replay(ctx, path):
    dataprop.replay(ctx, {"EXACT": True}, path)
