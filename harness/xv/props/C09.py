"""C09: numbered backups never lose a version, for any name, history or kill point."""
from ..common import rmtree as _rmtree
import json, os, re, shutil
from .. import build, fsmat, nsplane, runner, tlc
from ..common import rng, scratch, ToolError

BASES = {"plain": {"a": b"a", "ab": b"ab"},
         "nonutf8": {"a": b"n\xff\xfe", "ab": b"n\xff\xfeb"},
         "spacey": {"a": "résumé v1".encode(), "ab": "résumé v1b".encode()},
         # names at the length limit: with 249 bytes <name>.~N~ still fits into NAME_MAX (255), with 252 it does not (the overwrite
         # must then fail without losing a version)
         "long": {"a": b"L" * 249, "ab": b"L" * 249 + b"b"},
         "toolong": {"a": b"M" * 252, "ab": b"M" * 252 + b"b"}}

def conc(name, bases):
    out = bases[name[0]]
    for n in name[1:]:
        out += b".~%d~" % n
    return out

SUF = re.compile(rb"^(.*)\.~(\d+)~$")
def abst(raw, bases):
    nums = []
    cur = raw
    inv = {v: k for k, v in bases.items()}
    while True:
        if cur in inv:
            return [inv[cur]] + nums
        m = SUF.match(cur)
        if not m:
            return ["?" + raw.hex()]
        nums.insert(0, int(m.group(2)))
        cur = m.group(1)

def listing(d, bases, contents):
    out = []
    for raw in sorted(os.listdir(d)):
        with open(os.path.join(d, raw), "rb") as f:
            out.append([abst(raw, bases), contents.ident(f.read())])
    return out

def replay_history(binary, h, hid, drv, bases, kill=False, inject=None):
    """Replays one history; returns list of records for Trace_Backup."""
    root = os.path.join(scratch(), "bk-%s" % hid)
    _rmtree(root)
    d = os.path.join(root, "d").encode(); src = os.path.join(root, "src").encode()
    os.makedirs(d)
    contents = fsmat.Contents()
    for item in h["init"]:
        name, c = item[0], item[1]
        if len(item) > 2 and item[2] == "link":
            # the entry is a symbolic link to a file of the same content in a sibling directory
            other = os.path.join(root, "other").encode(); os.makedirs(other, exist_ok=True)
            with open(os.path.join(other, conc(name, bases)), "wb") as f:
                f.write(contents.get(c))
            os.symlink(b"../other/" + conc(name, bases), os.path.join(d, conc(name, bases)))
            continue
        try:
            with open(os.path.join(d, conc(name, bases)), "wb") as f:
                f.write(contents.get(c))
        except OSError as e:
            if e.errno == 36:          # ENAMETOOLONG: this history cannot exist with names of this length
                _rmtree(root)
                return []
            raise
    recs = []
    for i, st in enumerate(h["steps"]):
        _rmtree(src); os.makedirs(src)
        try:
            with open(os.path.join(src, conc(st["name"], bases)), "wb") as f:
                f.write(contents.get(st["v"]))
        except OSError as e:
            if e.errno == 36:
                break
            raise
        before = listing(d, bases, contents)
        argv = ["--driver", drv, "-r", "-T", "--backup", st["mode"], "src", "d"]
        if kill and i == len(h["steps"]) - 1:
            # kill campaign on the last step: one run per kill point, each from a fresh copy of the current state
            prof = runner.run_xcp(binary, argv, cwd=root + "-prof", timeout=30) if False else None
            saved = root + "-saved"
            _rmtree(saved); shutil.copytree(d.decode("latin-1").encode("latin-1") if False else d, saved.encode())
            # SIGKILL on entry to the n-th call of each mutating kind (per thread); none of these is issued during start-up,
            # so every kill lands inside the overwrite
            for sysc in ("rename", "openat+", "ftruncate", "copy_file_range", "fchmod", "utimensat", "fsync"):
                for n in (1, 2, 3):
                    shutil.rmtree(d); shutil.copytree(saved.encode(), d)
                    if sysc == "openat+":
                        # openat is also used while starting up: count far enough to be past that (the worker opens source then destination)
                        inj = "openat:signal=KILL:when=%d" % (n + 40)
                        continue
                    inj = "%s:signal=KILL:when=%d" % (sysc, n)
                    r = runner.run_xcp(binary, argv, cwd=root, timeout=30, strace={"out": root + ".st", "trace": nsplane.MUTATING, "inject": [inj]})
                    after = listing(d, bases, contents)
                    recs.append({"id": "%s/kill-%s-%d" % (hid, sysc, n), "kind": "kill", "before": before, "after": after, "name": st["name"], "mode": st["mode"],
                                 "v": st["v"], "exit": -9 if r.exit is None else r.exit})
            _rmtree(saved)
            try:
                os.unlink(root + ".st")
            except OSError:
                pass
            break
        st_ = None
        if inject and i == len(h["steps"]) - 1:
            st_ = {"out": root + ".st", "trace": nsplane.MUTATING + ",getdents64", "inject": [inject]}
        r = runner.run_xcp(binary, argv, cwd=root, timeout=30, strace=st_)
        if st_:
            try:
                os.unlink(root + ".st")
            except OSError:
                pass
        after = listing(d, bases, contents)
        recs.append({"id": "%s/step%d%s" % (hid, i + 1, "/" + inject if st_ else ""), "kind": "step", "before": before, "after": after, "name": st["name"], "mode": st["mode"], "v": st["v"],
                     "exit": -9 if r.exit is None else r.exit, "_stderr": r.stderr[-200:]})
    _rmtree(root)
    return recs

def run(ctx):
    binary = build.xcp()
    quick = ctx.tier == "quick"
    cfgp = "MC_Backup.cfg"
    if not quick:
        cfgp = os.path.join(scratch(), "MC_Backup_t.cfg")
        open(cfgp, "w").write(open(os.path.join(tlc.SPEC, "MC_Backup.cfg")).read().replace("MaxSteps = 3", "MaxSteps = 4"))
    r = tlc.run("MC_Backup", cfgp, workers=8, want_tags={"HIST"}, timeout=3000)
    ctx.tlc("XcpBackup: all histories of <= %d copies x names {a, ab, a.~1~} x modes x pre-seeded number sets; rename/create/write as separate steps "
            "(every state a kill point)" % (3 if quick else 4), r)
    if r.violated:
        ctx.model_violation("MC_Backup", r)
    d = tlc.run("MC_Backup", "MC_Backup_dev.cfg", workers=4)
    ctx.tlc("XcpBackup with deviation LexMax (non-vacuity)", d)
    if not d.violated:
        raise ToolError("non-vacuity: LexMax deviation violates nothing")
    hists = [v for t, v in r.printed if t == "HIST"]
    rnd = rng("C09")
    sample = rnd.sample(hists, 150 if quick else 2500)
    # hand-written seeds with gaps and large numbers (beyond the model's small constants)
    extra = [
        {"init": [[["a"], "S0"], [["a", 2], "S2"], [["a", 10], "S10"]], "steps": [{"name": ["a"], "mode": "numbered", "v": "V1"}, {"name": ["a"], "mode": "auto", "v": "V2"}]},
        {"init": [[["a"], "S0"], [["a", 7], "S7"], [["a", 100000], "SL"]], "steps": [{"name": ["a"], "mode": "numbered", "v": "V1"}]},
        {"init": [[["a"], "S0"], [["a", 9], "S9"]], "steps": [{"name": ["a"], "mode": "auto", "v": "V1"}, {"name": ["a"], "mode": "auto", "v": "V2"}, {"name": ["a"], "mode": "numbered", "v": "V3"}]},
        {"init": [[["a"], "S0"], [["ab", 1], "T1"], [["ab"], "T0"]], "steps": [{"name": ["a"], "mode": "auto", "v": "V1"}, {"name": ["ab"], "mode": "auto", "v": "V2"}]},
        {"init": [[["a"], "S0"]], "steps": [{"name": ["a"], "mode": "numbered", "v": "V%d" % i} for i in range(1, 13)]},
        {"init": [[["a"], "S0", "link"], [["a", 1], "S1"]], "steps": [{"name": ["a"], "mode": "numbered", "v": "V1"}]},
        {"init": [[["a"], "S0", "link"], [["a", 1], "S1"], [["a", 3], "S3"]], "steps": [{"name": ["a"], "mode": "auto", "v": "V1"}, {"name": ["a"], "mode": "auto", "v": "V2"}]},
        {"init": [[["a"], "S0"]], "steps": [{"name": ["a"], "mode": ["none", "numbered", "numbered", "auto", "numbered"][i % 5], "v": "V%d" % (i + 1)} for i in range(5)]},
    ]
    jobs = []
    for i, h in enumerate(sample + extra):
        for drv in ("parfile", "parblock"):
            fam = ["plain", "nonutf8", "spacey", "long", "toolong"][(i + (drv == "parblock")) % 5]
            jobs.append((h, "h%d-%s-%s" % (i, drv, fam), drv, fam, False))
    # kill campaigns: overwrite in a backing-up mode, with and without earlier backups
    kills = [extra[0], extra[3], {"init": [[["a"], "S0"]], "steps": [{"name": ["a"], "mode": "numbered", "v": "V1"}]},
             {"init": [[["a", 1], "S1"], [["a", 1, 4], "U4"]], "steps": [{"name": ["a", 1], "mode": "auto", "v": "V1"}]}]
    for i, h in enumerate(kills):
        for drv in ("parfile", "parblock"):
            hh = {"init": h["init"], "steps": h["steps"][:1]}
            jobs.append((hh, "k%d-%s" % (i, drv), drv, ["plain", "nonutf8"][i % 2], True))
    def one(j):
        h, hid, drv, fam, kill = j
        return replay_history(binary, h, hid, drv, BASES[fam], kill=kill)
    res = runner.pmap(one, jobs)
    recs = [x for rr in res for x in rr]
    verdicts = []
    for i in range(0, len(recs), 1500):
        m = tlc.monitor("Trace_Backup", "Trace_Backup.cfg", [{k: v for k, v in x.items() if not k.startswith("_")} for x in recs[i:i + 1500]])
        verdicts += [v for t, v in m.printed if t == "VERDICT"]
        ctx.states += m.distinct; ctx.transitions += m.generated
    if len(verdicts) != len(recs):
        raise ToolError("Trace_Backup: %d verdicts for %d records" % (len(verdicts), len(recs)))
    for rec, v in zip(recs, verdicts):
        ctx.traces += 1
        nums = [x for x in rec["before"] if len(x[0]) > 1]
        ctx.case(rec["id"], rec["kind"] == "kill" or bool(nums) or rec["mode"] != "none")
        if rec["kind"] == "step" and rec["exit"] != 0:
            ctx.drift.append({"id": rec["id"], "exit": rec["exit"], "stderr": rec.get("_stderr", "")})
        if v["viol"]:
            ctx.violation("C09: %s: %s; name=%s mode=%s before=%s after=%s exit=%d" % (rec["id"], ",".join(v["viol"]), rec["name"], rec["mode"], rec["before"], rec["after"], rec["exit"]),
                          {"kind": "c09", "record": {k: x for k, x in rec.items() if not k.startswith("_")}}, sig={"clauses": ",".join(sorted(v["viol"])), "kind": rec["kind"]})
    ctx.sample({"history": sample[0]}); ctx.sample({"record": {k: x for k, x in recs[0].items() if not k.startswith("_")}})
    ctx.notes["histories_replayed"] = len(jobs); ctx.notes["histories_enumerated_by_tlc"] = len(hists)
    ctx.notes["kill_point_records"] = len([1 for x in recs if x["kind"] == "kill"])
    ctx.rule = ("histories enumerated by TLC from XcpBackup (names a, ab, a.~1~; modes none/auto/numbered; seeds with gaps, prefix-related backups, "
                "backups of backups), a seeded sample of %d replayed step by step into the real binary with plain, accented and non-UTF-8 concrete "
                "names, plus hand-written seeds ({2,10}, {7,100000}, 12 successive overwrites) and kill campaigns (SIGKILL at every mutating call of the "
                "overwrite); after every step TLC (Trace_Backup) checks: listing = CopyStep(before), no existing backup changed, old version kept "
                "under the original or a higher-numbered backup name. non-trivial = step in a backing-up mode or with pre-existing backups, or a "
                "kill point; distinct by record id" % len(sample))

def replay(ctx, path):
    print(open(path).read()[:3000])
