"""C12: progress updates are truthful, never exceed 100%, and the stream ends."""
import json
from .. import build, ctlplane, nsplane, probeplane, runner, tlc
from ..nsplane import E, SC
from ..common import rng, ToolError

def scen(name, files, sparse=None):
    fs = [E("s", "dir")]
    for fn, size in files.items():
        p = "s/" + fn
        if "/" in fn:
            d = "s/" + fn.rsplit("/", 1)[0]
            if not any(e["p"] == d.split("/") for e in fs):
                fs.append(E(d, "dir"))
        e = E(p, "file", "S-%s-%d" % (fn, size))
        e["meta"]["data"] = bytes((i * 13 + len(fn)) % 251 + 1 for i in range(size))
        fs.append(e)
    for fn, (cells, tail) in (sparse or {}).items():
        e = E("s/" + fn, "file", "SP-" + fn)
        e["meta"]["sparse"] = cells; e["meta"]["sparse_tail"] = tail
        fs.append(e)
    fs.append(E("s/lnk", "link", "nowhere"))
    return SC(name, fs, ["s"], "d", cls="status")

def total_len(sc, before):
    return sum(int(e["l"]) for e in before if e["k"] == "file" and e["p"][0] == "s")

def run(ctx):
    probe = build.probe()
    quick = ctx.tier == "quick"
    ctlplane.layer_a(ctx, quick, nonvacuity=False)
    r = tlc.run("XcpChan", "MC_Chan.cfg", workers=4)
    ctx.tlc("XcpChan: ChannelUpdater batching never delivers more than was copied/announced (all interleavings of send)", r)
    if r.violated:
        ctx.model_violation("XcpChan", r)
    rnd = rng("C12")
    scs = [
        scen("few", {"a": 25, "b": 40, "c": 0}),
        scen("blocks", {"a": 5000, "b": 12000, "d/c": 1, "d/e": 4096, "z": 999}),
        scen("many", {("f%03d" % i): (i * 53) % 700 for i in range(120)}),
        scen("sparse-odd", {"x": 100}, sparse={"sp": ([0] * 256 + [1], 100), "sp2": ([1, 0, 0, 1], 7)}),
    ]
    jobs = []
    for sc in scs:
        for drv in ("parfile", "parblock"):
            for bs in (8, 1000, 1 << 20):
                for upd in ("rec", "chan", "noop"):
                    for w in ((1, 4) if quick else (1, 2, 4, 16)):
                        if quick and upd != "rec" and w == 1:
                            continue
                        cfg = {"workers": w, "block_size": bs, "size_delay_us": rnd.choice([0, 500, 3000]) if upd == "rec" else 0, "drain_timeout_s": 30}
                        jobs.append((sc, drv, upd, cfg, None, None, upd == "rec" and w == 4))
    # short counts (hook) and faults (strace): the stream stays truthful
    for sc in scs[:2]:
        for drv in ("parfile", "parblock"):
            jobs.append((sc, drv, "rec", {"workers": 2, "block_size": 1000, "drain_timeout_s": 30}, {"XCP_VERIF_PLAN": "cfr.max=7"}, None, True))
            jobs.append((sc, drv, "rec", {"workers": 2, "block_size": 1000, "drain_timeout_s": 30}, {"XCP_VERIF_PLAN": "cfr.errno=38;pread.max=33;read.max=33"}, None, True))
            for inj in ("copy_file_range:error=EIO:when=2", "openat:error=EACCES:when=3", "ftruncate:error=ENOSPC:when=1", "fchmod:error=EPERM:when=2"):
                jobs.append((sc, drv, "rec", {"workers": 2, "block_size": 1000, "drain_timeout_s": 30}, None, inj, False))
                jobs.append((sc, drv, "chan", {"workers": 2, "block_size": 1000, "drain_timeout_s": 30}, None, inj, False))
    # the provided ChannelUpdater under many concurrent senders (its batching must never deliver more than was copied)
    for sc in (scs[1], scs[2]):
        for drv in ("parfile", "parblock"):
            for bs in (64, 4096):
                for rep in range(4 if quick else 20):
                    jobs.append((sc, drv, "chan", {"workers": [8, 4, 16, 8][rep % 4], "block_size": bs, "drain_timeout_s": 30}, None, None, False))
    # a failure in ANY block, early or late, of a single file and of the last file of a tree
    one_file = scen("onefile", {"only": 8000})
    last_file = scen("lastfile", {"a": 10, "b": 20, "zz-last": 6000})
    for sc in (one_file, last_file):
        for drv in ("parfile", "parblock"):
            for when in ((1, 3, 5, 6, 7, 8) if quick else range(1, 10)):
                for upd in ("rec", "chan"):
                    jobs.append((sc, drv, upd, {"workers": [1, 2, 4][when % 3], "block_size": 1000, "drain_timeout_s": 30}, None,
                                 "copy_file_range:error=%s:when=%d" % (["EIO", "ENOSPC"][when % 2], when), False))
    jobs = [j + (k,) for k, j in enumerate(jobs)]
    def one(j):
        sc, drv, upd, cfg, env, inj, measure, k = j
        rid = "c12-%d-%s-%s-%s" % (k, sc["id"], drv, upd)
        return probeplane.run_copy(probe, sc, drv, upd, cfg, rid, env=env, timeout=60, strace_inject=inj, measure=measure)
    res = runner.pmap(one, jobs, workers=10)
    recs = []
    for (sc, drv, upd, cfg, env, inj, measure, k), p in zip(jobs, res):
        before = {tuple(e["p"]): e for e in p["before"]}; after = {tuple(e["p"]): e for e in p["after"]}
        missing = 0
        for path, e in before.items():
            if e["k"] == "file" and path[0] == "s":
                d = after.get(("d",) + path[1:]) if ("d",) in before or True else None
                # dest did not exist: target_base = d itself
                if d is None or d["c"] != e["c"]:
                    missing += 1
        end = p["end"] or {"result": "hang", "closed": False}
        recs.append({"id": "%s/%s/%s/bs%d/w%d/%s%s#%d" % (sc["id"], drv, upd, cfg["block_size"], cfg["workers"], (env or {}).get("XCP_VERIF_PLAN", ""), inj or "", k),
                     "stream": [{"u": u["u"], "n": int(u["n"])} for u in p["stream"]], "total": total_len(sc, p["before"]),
                     "transferred": p["transferred"], "result": "hang" if p["timed_out"] else end["result"], "closed": bool(end.get("closed", False)),
                     "missing": missing, "noop": upd == "noop"})
    verdicts = []
    for i in range(0, len(recs), 300):
        m = tlc.monitor("Trace_Status", "Trace_Status.cfg", recs[i:i + 300])
        verdicts += [v for t, v in m.printed if t == "VERDICT"]
        ctx.states += m.distinct; ctx.transitions += m.generated
    if len(verdicts) != len(recs):
        raise ToolError("Trace_Status: %d verdicts for %d records" % (len(verdicts), len(recs)))
    for j, rec, v in zip(jobs, recs, verdicts):
        ctx.traces += 1
        ncop = len([u for u in rec["stream"] if u["u"] == "Copied"])
        ctx.case(rec["id"], ncop >= 2 or j[4] is not None or j[5] is not None)
        if v["viol"]:
            ctx.violation("C12: %s: %s (stream head %s; total=%d transferred=%d result=%s closed=%s missing=%d)" %
                          (rec["id"], ",".join(v["viol"]), [(u["u"], u["n"]) for u in rec["stream"][:8]], rec["total"], rec["transferred"], rec["result"],
                           rec["closed"], rec["missing"]), {"kind": "c12", "record": rec}, sig={"id": rec["id"].split("/")[0], "clauses": ",".join(sorted(v["viol"]))})
    ctx.sample({"id": recs[0]["id"], "stream": recs[0]["stream"][:10], "total": recs[0]["total"]})
    ctx.sample({"id": recs[-1]["id"], "stream": recs[-1]["stream"][:10], "result": recs[-1]["result"]})
    ctx.rule = ("update streams recorded through the API probe: trees (few small files; multi-block files; 120 files; sparse files whose length is "
                "not a multiple of the filesystem block) x block sizes {8, 1000, 1 MiB} x workers x drivers x updaters {client-supplied recorder "
                "(with a seeded delay inside send(Size)), ChannelUpdater, NoopUpdater}; with short counts (hooks) and injected faults (strace); "
                "bytes transferred measured from the strace log of the same run. TLC (Trace_Status): no prefix reports more copied than announced; "
                "sizes sum to the total; copied <= transferred; the stream ends; incomplete => error. non-trivial = >= 2 Copied updates, or a clamp, "
                "or a fault; distinct by (scenario, driver, updater, block size, workers, plan)")

def replay(ctx, path):
    print(open(path).read()[:3000])
