"""C13: --dereference copies what links point to, or fails; never leaves links or gaps."""
from .. import nsplane, nsprop
from ..common import rng

def run(ctx):
    rnd = rng("C13")
    scs = nsplane.family_deref(rnd, ctx.tier)
    extra = nsplane.family_random(rnd, 150 if ctx.tier == "quick" else 2000)
    for s in extra:
        s["L"] = True; s["id"] = "L-" + s["id"]
    scs += extra
    ctx.rule = ("trees with links to files, to directories (with content), chains of 2-3, relative/absolute, pointing outside the source, "
                "dangling, cyclic, self-referential, a link to an ancestor; a linked root; seeded random scenarios forced to -L; both drivers; "
                "non-trivial = a link to a directory, a chain, or an outside/dangling/cyclic target")
    def nt(sc):
        return sc is None or any(e["k"] == "link" for e in sc["fs0"])
    # path resolution failing part-way (readlink/stat errors inside canonicalize): exit 0 must still mean "no links"
    camp = [s for s in scs if s["id"] in ("deref-file-rel-absent", "deref-dir-rel-absent", "deref-chain3-dir-absent", "deref-file-abs-dir")]
    def extra_runs(binary):
        obs = []
        for sc in camp:
            for d in nsprop.DRIVERS:
                pts = [(sysc, err, w) for sysc, err in (("readlink", "ENAMETOOLONG"), ("readlink", "EACCES"), ("readlink", "EIO")) for w in range(1, 9 if ctx.tier == "quick" else 25)]
                obs += nsplane.fault_runs(binary, sc, d, pts, tag="derefault")
        ctx.notes["resolution_fault_runs"] = len(obs)
        return obs
    nsprop.run(ctx, "C13", scs, nontrivial=nt, extra_runs=extra_runs)

def replay(ctx, path):
    nsprop.replay(ctx, "C13", path)
