"""C11: holes stay holes - sparse files are copied without materialising them."""
from .. import build, dataplane, dataprop
from ..common import rng, ToolError

def stretch(cells, k):
    """every hole k times larger"""
    out = []
    for c in cells:
        out += [c] * (k if c == 0 else 1)
    return out

def run(ctx):
    binary = build.xcp()
    quick = ctx.tier == "quick"
    maxl = 4 if quick else 6
    r = dataplane.model_check(maxl)
    ctx.tlc("XcpData MaxL=%d: HolesStayHoles (destination allocation within the source's data cells + merge gap) in every state" % maxl, r)
    if r.violated:
        ctx.model_violation("MC_Data", r)
    d = dataplane.model_check(3, deviations='{"NoTruncate"}', workers=4, invariants=["Exact"])
    ctx.tlc("XcpData with NoTruncate (non-vacuity)", d)
    if d.violated != "Exact":
        raise ToolError("non-vacuity: NoTruncate does not violate Exact in the model")
    rnd = rng("C11")
    MIB = 1 << 20
    layouts = {
        "lead": [0, 0, 1, 1], "trail": [1, 1, 0, 0, 0], "inter": [1, 0, 1, 0, 0, 1, 0, 1], "empty": [0, 0, 0, 0], "one-mid": [0, 0, 0, 1, 0, 0],
        "dense-then-hole": [1, 1, 1, 1, 0, 0, 0, 0], "start-end": [1] + [0] * 14 + [1],
    }
    if not quick:
        for i in range(24):
            n = rnd.randint(4, 48)
            layouts["rand%d" % i] = [1 if rnd.random() < 0.35 else 0 for _ in range(n)]
    jobs = []
    n = 0
    def add(name, cells, cell, drv, bb, prior, workers, grow_of=None):
        nonlocal n
        n += 1
        sc = dataprop.layout("%s-%s-bb%d-p%d-w%d#%d" % (name, drv, bb, prior, workers, n), cells, 1, drv, reflink=rnd.choice(["auto", "never"]), prior=prior)
        jobs.append((sc, dict(run_id="s%d" % n, cell=cell, block_bytes=bb, workers=workers)))
        return len(jobs) - 1
    pairs = []
    for name, cells in layouts.items():
        for drv in ("parfile", "parblock"):
            for bb in ((256 * 1024, 3 * MIB) if quick else (64 * 1024, 256 * 1024, MIB, 3 * MIB, 64 * MIB)):
                for prior in (0, 2):
                    w = rnd.choice([1, 2, 4, 16])
                    add(name, cells, MIB, drv, bb, prior, w)
            # growth form: holes four times larger, same data
            b = add(name + "-base", cells, MIB, drv, MIB, 0, 2)
            g = add(name + "-x4", stretch(cells, 4), MIB, drv, MIB, 0, 2)
            pairs.append((b, g))
    # more than 32 extents: two FIEMAP pages (64 KiB data pieces separated by 1 MiB holes)
    many = []
    for i in range(40 if quick else 70):
        many += [1] + [0] * 16
    for drv in ("parfile", "parblock"):
        for bb in (32 * 1024, 256 * 1024, 8 * MIB):
            for prior in (0, 2):
                add("many%d" % (len(many) // 17), many + [1], 64 * 1024, drv, bb, prior, rnd.choice([1, 4, 16]))
    ctx.rule = ("layouts of 1 MiB cells (leading, trailing, interleaved, entirely empty, data only at both ends, seeded random in thorough), "
                "block sizes below and above the segment size, fresh and fully allocated longer pre-existing destination, workers 1..16, both drivers; "
                "40/70 data extents separated by 1 MiB holes (two or three FIEMAP pages); growth form (every hole x4 => same allocation). Oracle by "
                "TLC: st_blocks(dst) <= st_blocks(src) + slack(4 KiB + 4 KiB per extent), SEEK_DATA map of dst inside the block-rounded map of src. "
                "non-trivial = at least one hole of >= 1 MiB and one data cell; distinct by scenario id")
    def nt(sc, kw, o):
        return 0 < len(sc["salloc"]) < sc["len"]
    def one(j):
        sc, kw = j
        return dataplane.run_one(binary, sc, **kw)
    from .. import runner
    obs = runner.pmap(one, jobs, workers=8)
    for b, g in pairs:
        obs[g]["growBase"] = obs[b]["dblocks"]
    verdicts, st = dataplane.judge(obs)
    ctx.states += st["distinct"]; ctx.transitions += st["generated"]
    ctx.tlc_jobs.append({"job": "Trace_Data verdicts", "records": len(obs), "wall_s": round(st["wall"], 2)})
    for (sc, kw), o, v in zip(jobs, obs, verdicts):
        ctx.traces += 1
        ctx.case(o["id"], nt(sc, kw, o))
        for c in v["viol"]:
            rep = {"kind": "data-run", "scenario": sc, "kwargs": kw, "obs": dataplane.strip(o), "argv": o["_run"]["argv"], "env": o["_run"]["env"],
                   "stderr": o["_run"]["stderr"], "clause": c}
            if c in ("SPARSE", "GROWTH"):
                ctx.violation("C11: %s violated by %s: src blocks=%d dst blocks=%d slack=%d (exit=%d, argv=%s)" % (c, o["id"], o["sblocks"], o["dblocks"],
                              o["slackBlocks"], o["exit"], " ".join(o["_run"]["argv"])), rep, sig={"scenario": sc["id"].split("#")[0], "clause": c})
            else:
                ctx.other.append({"clause": c, "id": o["id"]})
    for sc, kw in jobs[:3]:
        ctx.sample({"cells(1=data,0=hole)": dataplane.layout_cells(sc), "cell_bytes": kw["cell"], "driver": sc["driver"], "block_bytes": kw["block_bytes"], "prior": sc["prior"]})

def replay(ctx, path):
    dataprop.replay(ctx, {"SPARSE": True, "GROWTH": True}, path)
