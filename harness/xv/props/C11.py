"""C11: holes stay holes - sparse files are copied without materialising them."""
from ..common import rmtree as _rmtree
from .. import build, dataplane, dataprop
from ..common import rng, ToolError

def stretch(cells, k):
    """every hole k times larger"""
    out = []
    for c in cells:
        out += [c] * (k if c == 0 else 1)
    return out

def two_filesystems(ctx, binary):
    """Extent-mapping support belongs to the filesystem of each file, not to the process: a source on tmpfs (no FIEMAP)
    copied in the same invocation before a sparse ext4 source must not make the latter lose its holes."""
    import os, shutil, tempfile
    from .. import fsmat, runner, tlc
    from ..common import scratch
    if not os.path.isdir("/dev/shm") or os.statvfs("/dev/shm").f_bsize == 0:
        ctx.notes["two_filesystems"] = "skipped: no /dev/shm"
        return
    shm = tempfile.mkdtemp(prefix="xcp-verif-c11-", dir="/dev/shm")
    root = os.path.join(scratch(), "c11-2fs"); os.makedirs(root, exist_ok=True)
    try:
        MIB = 1 << 20
        fsmat.write_cells(os.path.join(shm, "t.bin"), [1, 0, 0, 0, 0, 0, 0, 1], MIB, fid=1)
        cells = [1, 0, 0, 0, 0, 0, 0, 0, 0, 0, 0, 1, 0, 0, 0, 0, 0, 0, 0, 0, 1]
        fsmat.write_cells(os.path.join(root, "e.bin"), cells, MIB, fid=1)
        recs = []
        for drv in ("parblock", "parfile"):
            for w in (1, 4):
                d = os.path.join(root, "dst-%s-%d" % (drv, w)); os.makedirs(d)
                r = runner.run_xcp(binary, ["--driver", drv, "--workers", str(w), os.path.join(shm, "t.bin"), "e.bin", d], cwd=root, timeout=120)
                dp = os.path.join(d, "e.bin")
                sst = os.stat(os.path.join(root, "e.bin"))
                obs = {"id": "two-fs/%s/w%d" % (drv, w), "len": len(cells), "cell": MIB, "tail": 0, "sruns": dataplane.runs_of(["D" if c else "Z" for c in cells]),
                       "exit": r.exit if r.exit is not None else -9, "sblocks": sst.st_blocks, "smap": fsmat.data_map(os.path.join(root, "e.bin")), "fsblock": 4096,
                       "holesDetectable": True, "slackBlocks": 8 + 8 * 3, "growBase": -1}
                if os.path.exists(dp):
                    n, cl, t, tc = fsmat.read_cells(dp, MIB, fid=1)
                    obs.update({"dlen": n, "druns": dataplane.runs_of(dataplane.cls_of(cl)), "dtail": t, "dtailc": tc, "dblocks": os.stat(dp).st_blocks, "dmap": fsmat.data_map(dp)})
                else:
                    obs.update({"dlen": -1, "druns": [], "dtail": 0, "dtailc": 0, "dblocks": 0, "dmap": []})
                recs.append(obs)
        v, st = dataplane.judge(recs)
        for o, vv in zip(recs, v):
            ctx.traces += 1; ctx.case(o["id"], True)
            for c in vv["viol"]:
                if c in ("SPARSE", "GROWTH"):
                    ctx.violation("C11: %s: sparse ext4 source copied after a tmpfs source lost its holes: src blocks=%d dst blocks=%d" % (o["id"], o["sblocks"], o["dblocks"]),
                                  {"kind": "c11-2fs", "obs": o}, sig={"scenario": "two-fs"})
        ctx.notes["two_filesystems"] = "%d runs (tmpfs source first, then sparse ext4 source)" % len(recs)
    finally:
        _rmtree(shm); _rmtree(root)

def run(ctx):
    binary = build.xcp()
    quick = ctx.tier == "quick"
    maxl = 5 if quick else 6
    r = dataplane.model_check(maxl)
    ctx.tlc("XcpData MaxL=%d: HolesStayHoles (destination allocation within the source's data cells + merge gap) in every state" % maxl, r)
    if r.violated:
        ctx.model_violation("MC_Data", r)
    d = dataplane.model_check(3, deviations='{"NoTruncate"}', workers=4, invariants=["Exact"])
    ctx.tlc("XcpData with NoTruncate (non-vacuity)", d)
    if d.violated != "Exact":
        raise ToolError("non-vacuity: NoTruncate does not violate Exact in the model")
    rnd = rng("C11")
    MIB = 1 << 20
    layouts = {
        "lead": [0, 0, 1, 1], "trail": [1, 1, 0, 0, 0], "inter": [1, 0, 1, 0, 0, 1, 0, 1], "empty": [0, 0, 0, 0], "one-mid": [0, 0, 0, 1, 0, 0],
        "dense-then-hole": [1, 1, 1, 1, 0, 0, 0, 0], "start-end": [1] + [0] * 14 + [1],
    }
    for i in range(3 if quick else 80):
        n = rnd.randint(4, 24 if quick else 64)
        layouts["rand%d" % i] = [1 if rnd.random() < 0.35 else 0 for _ in range(n)]
    jobs = []
    n = 0
    def add(name, cells, cell, drv, bb, prior, workers, grow_of=None):
        nonlocal n
        n += 1
        sc = dataprop.layout("%s-%s-bb%d-p%d-w%d#%d" % (name, drv, bb, prior, workers, n), cells, 1, drv, reflink=rnd.choice(["auto", "never"]), prior=prior)
        jobs.append((sc, dict(run_id="s%d" % n, cell=cell, block_bytes=bb, workers=workers)))
        return len(jobs) - 1
    pairs = []
    for name, cells in layouts.items():
        for drv in ("parfile", "parblock"):
            for bb in ((256 * 1024, 3 * MIB) if quick else (64 * 1024, 256 * 1024, MIB, 3 * MIB, 64 * MIB)):
                # older destination: none / half as long / exactly as long / longer (all fully allocated, non-zero)
                for prior in ((0, len(cells) + 1, len(cells)) if quick else (0, 1, len(cells), len(cells) + 1)):
                    w = rnd.choice([1, 2, 4, 16])
                    if quick and prior == len(cells) and bb != 256 * 1024:
                        continue
                    add(name, cells, MIB, drv, bb, prior, w)
            # growth form: holes four times larger, same data
            b = add(name + "-base", cells, MIB, drv, MIB, 0, 2)
            g = add(name + "-x4", stretch(cells, 4), MIB, drv, MIB, 0, 2)
            pairs.append((b, g))
    # short kernel counts inside a block that ends at a hole (the retry must not over-request)
    for name, cells in (("inter", layouts["inter"]), ("lead", layouts["lead"])):
        for drv in ("parfile", "parblock"):
            for plan in (["cfr.nth=1:%d" % (768 * 1024)], ["cfr.max=%d" % (3 * MIB // 4)], ["cfr.rand=7"], ["cfr.max=1000003"]):
                n += 1
                sc = dataprop.layout("%s-short-%s#%d" % (name, drv, n), cells, 1, drv, reflink="never")
                jobs.append((sc, dict(run_id="s%d" % n, cell=MIB, block_bytes=4 * MIB, workers=rnd.choice([1, 4]), plan=plan)))
    # more than 32 extents: two FIEMAP pages (64 KiB data pieces separated by 1 MiB holes)
    many = []
    for i in range(40 if quick else 70):
        many += [1] + [0] * 16
    for drv in ("parfile", "parblock"):
        for bb in (32 * 1024, 256 * 1024, 8 * MIB):
            for prior in (0, len(many) + 2):
                add("many%d" % (len(many) // 17), many + [1], 64 * 1024, drv, bb, prior, rnd.choice([1, 4, 16]))
    ctx.rule = ("layouts of 1 MiB cells (leading, trailing, interleaved, entirely empty, data only at both ends, seeded random in thorough), "
                "block sizes below and above the segment size, fresh and fully allocated pre-existing destination (longer, exactly as long, half as long), workers 1..16, both drivers; "
                "40/70 data extents separated by 1 MiB holes (two or three FIEMAP pages); growth form (every hole x4 => same allocation). Oracle by "
                "TLC: st_blocks(dst) <= st_blocks(src) + slack(4 KiB + 4 KiB per extent), SEEK_DATA map of dst inside the block-rounded map of src. "
                "non-trivial = at least one hole of >= 1 MiB and one data cell; distinct by scenario id")
    def nt(sc, kw, o):
        return 0 < len(sc["salloc"]) < sc["len"]
    def one(j):
        sc, kw = j
        return dataplane.run_one(binary, sc, **kw)
    from .. import runner
    obs = runner.pmap(one, jobs, workers=8)
    for b, g in pairs:
        obs[g]["growBase"] = obs[b]["dblocks"]
    verdicts, st = dataplane.judge(obs)
    ctx.states += st["distinct"]; ctx.transitions += st["generated"]
    ctx.tlc_jobs.append({"job": "Trace_Data verdicts", "records": len(obs), "wall_s": round(st["wall"], 2)})
    for (sc, kw), o, v in zip(jobs, obs, verdicts):
        ctx.traces += 1
        ctx.case(o["id"], nt(sc, kw, o))
        for c in v["viol"]:
            rep = {"kind": "data-run", "scenario": sc, "kwargs": kw, "obs": dataplane.strip(o), "argv": o["_run"]["argv"], "env": o["_run"]["env"],
                   "stderr": o["_run"]["stderr"], "clause": c}
            if c in ("SPARSE", "GROWTH"):
                ctx.violation("C11: %s violated by %s: src blocks=%d dst blocks=%d slack=%d (exit=%d, argv=%s)" % (c, o["id"], o["sblocks"], o["dblocks"],
                              o["slackBlocks"], o["exit"], " ".join(o["_run"]["argv"])), rep, sig={"scenario": sc["id"].split("#")[0], "clause": c})
            else:
                ctx.other.append({"clause": c, "id": o["id"]})
    two_filesystems(ctx, binary)
    for sc, kw in jobs[:3]:
        ctx.sample({"cells(1=data,0=hole)": dataplane.layout_cells(sc), "cell_bytes": kw["cell"], "driver": sc["driver"], "block_bytes": kw["block_bytes"], "prior": sc["prior"]})

def replay(ctx, path):
    dataprop.replay(ctx, {"SPARSE": True, "GROWTH": True}, path)
