"""C18: --fsync flushes every destination file after its last write."""
import json
from .. import build, evplane, nsplane, runner
from ..nsplane import E, SC, tree
from ..common import rng, ToolError

def big(n, cid="B"):
    return {"data": (cid.encode() * 64)[:1] * 0 + bytes((i * 7 + 13) % 251 + 1 for i in range(n)), "c": "%s%d" % (cid, n)}

def scenario(name, files, block):
    fs = [E("s", "dir")]
    for fname, size in files.items():
        e = E("s/" + fname, "file", "X-%s-%d" % (fname, size))
        e["meta"] = {"data": bytes((i * 7 + len(fname)) % 251 + 1 for i in range(size))}
        fs.append(e)
    return SC(name, fs, ["s"], "d", extra=["--fsync", "--block-size", str(block)], cls="fsync")

def mat_fix(sc):
    # nsplane.mat_entries copies e['meta'] into the materialise entry: 'data' is understood there
    return sc

def run(ctx):
    binary = build.xcp()
    quick = ctx.tier == "quick"
    from . import C06
    C06.layer_a(ctx, quick)
    rnd = rng("C18")
    scs = [
        scenario("multi", {"a": 5000, "b": 12000, "e": 0, "one": 1, "c": 4096}, 1000),
        scenario("tiny-blocks", {"a": 300, "b": 299, "c": 301}, 100),
        scenario("mixed", dict({("f%02d" % i): (i * 997) % 7000 for i in range(20)}, big=40000), 2048),
        scenario("one-block-each", {("g%02d" % i): 100 + i for i in range(30)}, 1 << 20),
    ]
    # many two-block files: the last two holders of a handle release it at almost the same time
    many = scenario("many-two-block", {("h%04d" % i): 2000 for i in range(900 if quick else 3000)}, 1024)
    jobs = []
    for sc in scs:
        for drv in ("parfile", "parblock"):
            for w in ((1, 2, 4, 16) if quick else (1, 2, 3, 4, 8, 16)):
                for rep in range(2 if quick else 6):
                    seed = rnd.randint(1, 10 ** 6)
                    plan = ["delay=%d:%d" % (seed, rnd.choice([50, 300, 1500]))] if rep else None
                    extra = ["--reflink", rnd.choice(["auto", "never"])]
                    s2 = dict(sc); s2["extra"] = sc["extra"] + extra
                    jobs.append((s2, drv, w, plan, rep))
    for drv in ("parfile", "parblock"):
        for w in (4, 16):
            for rep in range(2 if quick else 5):
                # verbose logging moves the timing inside the library (log writes between "copy done" and "handle released")
                s2 = dict(many); s2["extra"] = many["extra"] + rnd.choice([[], ["--ownership"], ["--no-perms"], ["--no-timestamps"]]) + (["-vv"] if rep % 2 else [])
                jobs.append((s2, drv, w, None, rep))
    # --fsync together with every subset of the other finalisation options: the flush must not depend on them
    for drv in ("parfile", "parblock"):
        for bits in range(8):
            flags = [f for k, f in enumerate(["--no-perms", "--no-timestamps", "--ownership"]) if bits >> k & 1]
            s2 = dict(scs[0]); s2["extra"] = scs[0]["extra"] + flags; s2["id"] = "multi-flags%d" % bits
            jobs.append((s2, drv, 3, None, 0))
    # without --fsync nothing is required (the monitor must stay silent): control runs
    ctrl = dict(scs[0]); ctrl["extra"] = ["--block-size", "1000"]; ctrl["id"] = "multi-nofsync"
    for drv in ("parfile", "parblock"):
        jobs.append((ctrl, drv, 4, None, 0))
    def one(j):
        sc, drv, w, plan, rep = j
        rid = "c18-%s-%s-w%d-r%d" % (sc["id"], drv, w, rep)
        rl = sc["extra"][sc["extra"].index("--reflink") + 1] if "--reflink" in sc["extra"] else "auto"
        return evplane.traced_tree_run(binary, sc, drv, rid, {"fsync": "--fsync" in sc["extra"], "reflink": rl}, plan=plan, workers=w,
                                       extra_strace=None)
    res = runner.pmap(one, jobs)
    verdicts, st = evplane.judge([r[1] for r in res], len(res))
    ctx.states += st["distinct"]; ctx.transitions += st["generated"]
    ctx.tlc_jobs.append({"job": "Trace_Ev verdicts", "runs": len(res), "events": st["events"], "wall_s": round(st["wall"], 2)})
    for (sc, drv, w, plan, rep), (o, recs, n), v in zip(jobs, res, verdicts):
        ctx.traces += 1
        nfiles = len([e for e in sc["fs0"] if e["k"] == "file"])
        ctx.case((sc["id"], drv, w, rep), w >= 2 and sc["id"] != "one-block-each")
        if o["exit"] != 0:
            ctx.drift.append({"id": sc["id"], "driver": drv, "exit": o["exit"], "stderr": o["_run"]["stderr"][-200:]})
        if "C18" in v["viol"]:
            ctx.violation("C18: %s (%s, workers=%d, plan=%s): no successful fsync after the last write for %s" % (sc["id"], drv, w, plan, v["unsynced"][:5]),
                          {"kind": "c18", "scenario": {k: x for k, x in sc.items() if k != "fs0"}, "files": {"/".join(e["p"]): len(e.get("meta", {}).get("data", b"")) for e in sc["fs0"]},
                           "driver": drv, "workers": w, "plan": plan, "verdict": v, "exit": o["exit"]}, sig={"scenario": sc["id"], "driver": drv})
        elif "--fsync" in sc["extra"] and o["exit"] == 0 and v["written"] < nfiles:
            # fewer destination objects were written than there are source files although the run reports success: either the
            # observer lost events or the program skipped files (a matter for C02/C04) - nothing C18 can conclude; kept in the evidence
            ctx.other.append({"clause": "observer-or-C02", "id": sc["id"], "driver": drv, "written": v["written"], "files": nfiles})
        for c in v["viol"]:
            if c != "C18":
                ctx.other.append({"clause": c, "id": sc["id"], "driver": drv})
    from .. import combo
    combo.run(ctx, binary, {"C18"}, 40 if quick else 400, "C18")
    ctx.sample({"scenario": scs[0]["id"], "files": {"/".join(e["p"]): len(e.get("meta", {}).get("data", b"")) for e in scs[0]["fs0"]}, "argv_extra": scs[0]["extra"]})
    ctx.sample({"verdict": verdicts[0], "events_excerpt": [r for r in res[0][1] if r.get("ev") in ("sync", "data")][:10]})
    ctx.rule = ("trees of multi-block files (block sizes 100..2048 giving 1..40 blocks per file, empty and 1-byte files, 30 single-block files), "
                "both drivers, workers 1..16, repeated with seeded delays at the kernel-copy hook points; monitor (TLC, Trace_Ev): for every object "
                "written, a successful fsync entered after the exit of its last write-class call (copy_file_range, write, pwrite, ftruncate), none "
                "entered while a write is in flight; control runs without --fsync must stay silent. non-trivial = multi-block file and >= 2 workers; "
                "distinct by (scenario, driver, workers, repetition)")

def replay(ctx, path):
    print(open(path).read()[:2000])
