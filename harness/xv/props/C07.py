"""C07: xcp always terminates: no deadlock, no spin, with or without errors; library: copy returns and the channel closes."""
import json, os
from .. import build, ctlplane, dataplane, nsplane, probeplane, runner, tlc
from ..nsplane import E, SC, tree
from ..common import rng, ToolError

def bigblocks(name, cells, twice=False):
    """files whose block count exceeds the pool's job queue; copied with --block-size 4096"""
    e = E("s/big", "file", "BB-" + name); e["meta"]["sparse"] = cells
    fs = [E("s", "dir"), e]
    if twice:
        e2 = E("s/big2", "file", "BB2-" + name); e2["meta"]["sparse"] = cells
        fs.append(e2)
    return SC(name, fs, ["s"], "d", extra=["--block-size", "4096"], cls="term")

def scenarios(quick):
    many = {("f%03d" % i): "F%d" % (i % 9 + 1) for i in range(400)}
    out = [
        (SC("fifo-tree", tree("s", {"a": "F1", "p": ("fifo",), "sub": {"q": ("fifo",), "b": "F2"}, "so": ("sock",)}), ["s"], "d", cls="term"), None),
        (SC("fifo-sole", [E("p", "fifo")], ["p"], "d", r=False, cls="term"), None),
        (SC("fifo-sole-into-dir", [E("p", "fifo"), E("d", "dir")], ["p"], "d", r=False, cls="term"), None),
        (SC("sock-sole", [E("so", "sock")], ["so"], "d", r=False, cls="term"), None),
        (SC("empty-tree", tree("s", {}), ["s"], "d", cls="term"), None),
        (SC("empty-dirs", tree("s", {"a": {}, "b": {"c": {}}}), ["s"], "d", cls="term"), None),
        (SC("many", tree("s", many), ["s"], "d", cls="term"), None),
        # a worker fails (silently: special-file errors carry no Error update) while hundreds of operations are still to be queued
        (SC("special-fails-then-many", [E("p", "fifo")] + tree("t", many) + [E("d", "dir"), E("d/p", "dir"), E("d/p/x", "file", "F1")], ["p", "t"], "d", cls="term"), None),
        (SC("special-fails-then-many-fault", [E("p", "fifo")] + tree("t", many) + [E("d", "dir")], ["p", "t"], "d", cls="term"), "mknodat:error=EPERM:when=1"),
        # failures midway: the k-th open / copy / mkdir of some thread fails while the others are busy
        (SC("many-open-fails", tree("s", many), ["s"], "d", cls="term"), "openat:error=EMFILE:when=40"),
        (SC("many-copy-fails", tree("s", many), ["s"], "d", cls="term"), "copy_file_range:error=EIO:when=25"),
        (SC("many-mkdir-fails", tree("s", dict(many, sub={"x": "F1"})), ["s"], "d", cls="term"), "mkdir:error=ENOSPC:when=1"),
        (SC("many-ftruncate-fails", tree("s", many), ["s"], "d", cls="term"), "ftruncate:error=ENOSPC:when=100"),
        (SC("link-fails", tree("s", dict(many, l=("link", "f001"))), ["s"], "d", cls="term"), "symlink:error=EACCES:when=1"),
        # more block jobs than the pool queue holds (128), from one dense and one sparse file
        (bigblocks("dense-300-blocks", [1] * 300), None),
        (bigblocks("sparse-300-blocks", ([1] * 150 + [0] * 20 + [1] * 150)), None),
        (bigblocks("two-sparse", [1] * 200 + [0] * 8, twice=True), None),
        (SC("missing-source-lib", tree("s", {"a": "F1"}), ["s", "nosuch"], "d", cls="term"), None),
    ]
    return out

def run(ctx):
    binary = build.xcp()
    probe = build.probe()
    quick = ctx.tier == "quick"
    ctlplane.layer_a(ctx, quick, nonvacuity=False)          # Termination + ChannelCloses under weak fairness; deadlock check on
    r = dataplane.model_check(4 if quick else 5, invariants=["Exact"])
    ctx.tlc("XcpData: every copy loop ends (Termination) for every short-count sequence", r)
    if r.violated:
        ctx.model_violation("MC_Data", r)
    bound = 25 if quick else 90
    jobs = []
    for sc, inj in scenarios(quick):
        for drv in ("parfile", "parblock"):
            for w in ((1, 4, 64) if quick else (1, 2, 4, 16, 64)):
                jobs.append((sc, drv, w, inj))
    def one(j):
        sc, drv, w, inj = j
        st = {"trace": nsplane.MUTATING, "inject": [inj]} if inj else None
        o = nsplane.run_one(binary, sc, drv, "c07-%s-%s-w%d" % (sc["id"], drv, w), workers=w, timeout=bound, strace=st)
        if st:
            try:
                os.unlink(o["_run"]["trace"])
            except OSError:
                pass
        return o
    res = runner.pmap(one, jobs, workers=10)
    for (sc, drv, w, inj), o in zip(jobs, res):
        ctx.traces += 1
        ctx.case((sc["id"], drv, w), True)
        if o["_run"]["timed_out"]:
            ctx.violation("C07: xcp did not finish within %ds: %s (%s, workers=%d, fault=%s)" % (bound, sc["id"], drv, w, inj),
                          {"kind": "c07-cli", "scenario": sc["id"], "driver": drv, "workers": w, "inject": inj, "argv": o["_run"]["argv"]},
                          sig={"scenario": sc["id"], "driver": drv})
    # library clients: copy() returns and the update channel closes, for the three updaters
    pjobs = []
    for sc, inj in scenarios(quick):
        if sc["id"] in ("many", "many-ftruncate-fails", "many-mkdir-fails") and quick:
            continue
        for drv in ("parfile", "parblock"):
            for upd in ("rec", "chan", "noop"):
                pjobs.append((sc, drv, upd, inj))
    def pone(j):
        sc, drv, upd, inj = j
        return probeplane.run_copy(probe, sc, drv, upd, {"workers": 3, "block_size": 1000, "drain_timeout_s": bound - 5}, "c07p-%s-%s-%s" % (sc["id"], drv, upd),
                                   timeout=bound, strace_inject=inj)
    pres = runner.pmap(pone, pjobs, workers=10)
    for (sc, drv, upd, inj), p in zip(pjobs, pres):
        ctx.traces += 1
        ctx.case((sc["id"], drv, upd), True)
        bad = None
        if p["timed_out"] or p["end"] is None:
            bad = "copy() did not return within %ds" % bound if p["timed_out"] else "probe ended without a result (rc=%s, stderr=%s)" % (p["rc"], p["stderr"][-200:])
        elif p["end"]["result"] == "hang":
            bad = "copy() still running and channel open after the drain timeout"
        elif not p["end"].get("closed", True):
            bad = "copy() returned but an updater clone is still alive (the channel never closes)"
        if bad:
            ctx.violation("C07 (library): %s: %s (%s, updater=%s, fault=%s)" % (sc["id"], bad, drv, upd, inj),
                          {"kind": "c07-lib", "scenario": sc["id"], "driver": drv, "updater": upd, "inject": inj, "end": p["end"]},
                          sig={"scenario": sc["id"], "driver": drv, "updater": upd})
    ctx.sample({"cli_scenarios": [s["id"] for s, _ in scenarios(quick)]})
    ctx.sample({"probe_end_record": pres[0]["end"], "stream_head": pres[0]["stream"][:4]})
    ctx.rule = ("trees with FIFOs (no writer) and sockets, alone / inside a tree / into a directory, empty trees, 400-file trees; a worker "
                "failing while hundreds of operations are still being queued (silent special-file error; injected mknod/open/copy/mkdir/ftruncate/"
                "symlink failures), both drivers, workers {1,4,64}; every run under a wall-clock bound of %ds (fault-free time is ~0.02-0.3 s); "
                "library probe: copy() returns and the channel closes for the recording, channel and no-op updaters. non-trivial = every run; "
                "distinct by (scenario, driver, workers | updater)" % bound)

def replay(ctx, path):
    print(open(path).read()[:3000])
