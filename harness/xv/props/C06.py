"""C06: the outcome is independent of thread interleaving, worker count and driver."""
import json
from .. import build, ctlplane, evplane, nsplane, runner, tlc
from ..nsplane import E, SC, tree
from ..common import rng, ToolError

def layer_a(ctx, quick):
    return ctlplane.layer_a(ctx, quick)

def filedata(name, size):
    return bytes((i * 11 + len(name) * 3) % 251 + 1 for i in range(size))

def scenario(name, shape, block, extra=None):
    """shape: name -> int size | ('link', text) | dict"""
    fs = [E("s", "dir", m=0o750, t="1600000000123456789")]
    def rec(base, sh):
        for n, v in sh.items():
            p = base + "/" + n
            if isinstance(v, dict):
                fs.append(E(p, "dir", m=0o755)); rec(p, v)
            elif isinstance(v, tuple):
                fs.append(E(p, "link", v[1]))
            else:
                e = E(p, "file", "X-%s-%d" % (p, v), m=[0o644, 0o600, 0o755, 0o444][len(n) % 4], t=str(1500000000000000000 + v * 1000 + len(p)))
                e["meta"]["data"] = filedata(p, v)
                fs.append(e)
    rec("s", shape)
    return SC(name, fs, ["s"], "d", extra=["--block-size", str(block)] + (extra or []), cls="schedule")

def scenarios(quick):
    small = {("f%02d" % i): (i * 37) % 300 for i in range(25)}
    out = [
        scenario("mixed", dict(small, big1=5000, big2=7777, sub={"x": 3000, "deep": {"y": 1, "e": 0}, "l": ("link", "../big1")}, l2=("link", "f01")), 1000),
        scenario("multiblock", {"a": 8000, "b": 8000, "c": 4096, "d": {"e": 8191}}, 1024),
        scenario("nested", {"d1": {"d2": {"d3": {"f": 100, "g": 2500}}, "h": 10}, "top": 999}, 500),
        scenario("fsync-mixed", dict(small, big=6000), 2000, extra=["--fsync"]),
    ]
    sp = scenario("specials-mixed", {("d%02d" % i): {"f": 50 + i, "g": 1200} for i in range(24)}, 1000)
    for i in range(24):
        sp["fs0"].append(E("s/d%02d/p" % i, "fifo", m=0o666))
        if i % 3 == 0:
            sp["fs0"].append(E("s/d%02d/c" % i, "chr", "1:3", m=0o660))
    sp["umask"] = 0o022
    out.append(sp)
    if not quick:
        out.append(scenario("wide", {("w%03d" % i): (i * 131) % 5000 for i in range(300)}, 1024))
    return out

def view(after, with_meta=True):
    """what must be equal across runs: paths, kinds, bytes, link targets, permissions, timestamps"""
    out = []
    for e in after:
        if e["p"][0] != "d":
            continue
        md = e["md"].split("|")
        mode, mtime = md[0], md[1]
        if e["k"] == "dir":
            mtime = ""            # directory mtimes are set by the creation of children (not copied by xcp)
        if e["k"] == "link":
            mode, mtime = "", ""
        if e["k"] in ("fifo", "sock", "chr", "blk"):
            mtime = ""            # a recreated node has the time of its creation (no property claims otherwise)
        out.append(["/".join(e["p"]), e["k"], e["c"], mode if with_meta else "", mtime if with_meta else ""])
    return out

def run(ctx):
    binary = build.xcp()
    quick = ctx.tier == "quick"
    layer_a(ctx, quick)
    rnd = rng("C06")
    scs = scenarios(quick)
    jobs = []
    for sc in scs:
        for drv in ("parfile", "parblock"):
            for w in ((0, 1, 2, 4, 16, 64) if quick else (0, 1, 2, 3, 4, 8, 16, 32, 64)):      # 0 = one worker per logical CPU
                for rep in range(3 if quick else 7):
                    plan = None if rep != 1 else ["delay=%d:%d" % (rnd.randint(1, 10 ** 6), rnd.choice([100, 800, 3000]))]
                    # schedule perturbation from outside: strace holds threads at the exit/entry of chosen system calls
                    inj = None
                    if rep >= 2:
                        sysc = rnd.choice(["copy_file_range", "openat", "ftruncate", "fchmod", "close", "symlink", "mkdir", "utimensat", "futex"])
                        inj = ["%s:%s=%d:when=%d+%d" % (sysc, rnd.choice(["delay_exit", "delay_enter"]), rnd.choice([200, 2000, 15000]), rnd.randint(1, 4), rnd.randint(1, 3))]
                    jobs.append((sc, drv, w, plan, rep, inj))
    def one(j):
        sc, drv, w, plan, rep, inj = j
        rid = "c06-%s-%s-w%d-r%d" % (sc["id"], drv, w, rep)
        return evplane.traced_tree_run(binary, sc, drv, rid, {"fsync": "--fsync" in sc["extra"], "reflink": "auto"}, plan=plan, workers=w, inject=inj)
    res = runner.pmap(one, jobs)
    verdicts, st = evplane.judge([r[1] for r in res], len(res))
    ctx.states += st["distinct"]; ctx.transitions += st["generated"]
    ctx.tlc_jobs.append({"job": "Trace_Ev verdicts", "runs": len(res), "events": st["events"], "wall_s": round(st["wall"], 2)})
    # Layer-A fidelity: the same traces replayed against the per-file life cycle of XcpParfile/XcpParblock (advisory)
    import copy
    life, lm = evplane.life_judge([r[1] for r in res])
    ctx.states += lm.distinct; ctx.transitions += lm.generated
    drifting = [v for v in life if v["drift"]]
    ctx.notes["lifecycle_fidelity"] = {"runs_replayed_against_the_control_plane_life_cycle": len(life), "files": sum(v["files"] for v in life),
                                       "runs_with_drift": len(drifting), "examples": [(v["run"], v["drift"][:2]) for v in drifting[:5]]}
    for v in drifting[:10]:
        ctx.drift.append({"run": v["run"], "what": v["drift"][:3]})
    if drifting:
        from ..common import log
        log("MODEL-DRIFT: %d traced runs do not follow the per-file life cycle of the control-plane models" % len(drifting))
    # binding self-test: a trace with two finalisation calls swapped / a copy moved after the chmod must show drift
    base = next((r[1] for r, v in zip(res, life) if not v["drift"] and any(e.get("kind") == "utimensat" for e in r[1])), None)
    if base is not None:
        bad = copy.deepcopy(base)
        i1 = next(i for i, e in enumerate(bad) if e.get("kind") == "fchmod" and e.get("ph") == "call")
        i2 = next(i for i, e in enumerate(bad) if e.get("kind") == "utimensat" and e.get("ph") == "call" and e.get("path") == bad[i1]["path"])
        bad[i1]["kind"], bad[i2]["kind"] = bad[i2]["kind"], bad[i1]["kind"]
        lv, lm2 = evplane.life_judge([bad])
        ctx.notes["lifecycle_fidelity"]["corrupted_trace_shows_drift"] = bool(lv[0]["drift"])
        if not lv[0]["drift"]:
            raise ToolError("binding self-test failed: a trace with fchmod/utimensat swapped is accepted by TraceA_Life")
    # determinism across runs: TLC compares the outcome records of all runs of one scenario (Trace_Det)
    groups = {}
    for (sc, drv, w, plan, rep, inj), (o, recs, n), v in zip(jobs, res, verdicts):
        ctx.traces += 1
        multi = any(len(e.get("meta", {}).get("data", b"")) > int(sc["extra"][1]) for e in sc["fs0"])
        ctx.case((sc["id"], drv, w, rep), multi and w >= 2)
        groups.setdefault(sc["id"], []).append({"run": "%s/w%d/r%d" % (drv, w, rep), "exit": o["exit"], "view": view(o["after"])})
        for c in v["viol"]:
            if c in ("C06",):
                ctx.violation("C06: %s (%s, workers=%d, plan=%s): metadata applied before the last write (or a write after metadata)" % (sc["id"], drv, w, plan or inj),
                              {"kind": "c06-order", "scenario": sc["id"], "driver": drv, "workers": w, "plan": plan, "inject": inj, "verdict": v},
                              sig={"scenario": sc["id"], "driver": drv, "kind": "order"})
            else:
                ctx.other.append({"clause": c, "id": sc["id"], "driver": drv})
    drecs = [{"id": k, "runs": v} for k, v in groups.items()]
    m = tlc.monitor("Trace_Det", "Trace_Det.cfg", drecs)
    ctx.states += m.distinct; ctx.transitions += m.generated
    dv = [v for t, v in m.printed if t == "VERDICT"]
    if len(dv) != len(drecs):
        raise ToolError("Trace_Det: %d verdicts for %d groups" % (len(dv), len(drecs)))
    for g, v in zip(drecs, dv):
        if not v["ok"]:
            ctx.violation("C06: scenario %s: runs disagree (%s): %s" % (g["id"], v["what"], v["witness"]),
                          {"kind": "c06-det", "scenario": g["id"], "witness": v["witness"], "what": v["what"]}, sig={"scenario": g["id"], "kind": "det"})
    from .. import combo
    combo.run(ctx, binary, {"C06"}, 40 if quick else 400, "C06")
    ctx.sample({"scenario": scs[0]["id"], "files": {"/".join(e["p"]): (e["k"], len(e.get("meta", {}).get("data", b""))) for e in scs[0]["fs0"]}})
    ctx.sample({"group_verdict": dv[0], "runs_compared": len(drecs[0]["runs"])})
    ctx.rule = ("trees mixing many small files, 3-8-block files, nested directories and links; each scenario run with both drivers, workers "
                "{1,2,4,16,64}, repeated with seeded delays at the libfs hook points; TLC (Trace_Det) requires all runs of a scenario to have the same "
                "exit status and the same destination (paths, kinds, bytes, link text, permissions, mtimes); TLC (Trace_Ev) checks on every trace "
                "that no metadata call on an object is entered before its last write returned. non-trivial = multi-block file and >= 2 workers; "
                "distinct by (scenario, driver, workers, repetition)")

def replay(ctx, path):
    print(open(path).read()[:3000])
