"""C06 (layer A part shared with C18/C10/C04/C07/C12/C20): the control-plane models."""
def layer_a(ctx, quick):
    pass
def run(ctx):
    raise NotImplementedError
