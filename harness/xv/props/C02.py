"""C02: exit 0 => the destination tree mirrors the selected source tree (and nothing else changed)."""
from .. import nsplane, nsprop, fsmat
from ..common import rng

def scenarios(ctx):
    rnd = rng("C02")
    scs = nsplane.family_mapping(rnd, ctx.tier)
    for i, sc in enumerate(scs):          # the progress setting must not matter: half of the family runs with --no-progress
        if i % 2 == 1:
            sc["extra"] = list(sc.get("extra", [])) + ["--no-progress"]
    scs += nsplane.family_random(rnd, 120 if ctx.tier == "quick" else 1500)
    return scs

def names_for(sc, driver):
    # awkward concrete names (spaces, unicode, non-UTF-8 bytes) below the roots; roots stay plain (argv must be UTF-8)
    if sc["cls"] != "mapping" or sc.get("glob") or "--backup" in sc.get("extra", []):
        return None          # backup names are derived from the names themselves: keep them literal
    rnd = rng("C02names", sc["id"], driver)
    if rnd.random() < 0.5:
        return None
    ids = sorted({c for e in sc["fs0"] for c in e["p"][1:]} - {"s", "d", "t", "f", "by"})
    argnames = {c for a in sc["sources"] + [sc["dest"]] for c in a["norm"]}
    ids = [i for i in ids if i not in argnames]
    return fsmat.tricky_names(ids, rnd)

def run(ctx):
    scs = scenarios(ctx)
    ctx.rule = ("scenarios = structured mapping family (source tree shape x destination state x -T/--target-directory x spelling, "
                "1..3 sources, glob-selected sources) + seeded random small scenarios; each run on both drivers; non-trivial = "
                ">=2 levels or a link in the source, or a populated destination, or several sources; distinct by (scenario id, driver)")
    def nt(sc):
        return (any(len(e["p"]) >= 3 for e in sc["fs0"]) or any(e["k"] == "link" for e in sc["fs0"])
                or len(sc["sources"]) > 1 or any(e["p"][0] == "d" and len(e["p"]) > 1 for e in sc["fs0"]))
    nsprop.run(ctx, "C02", scs, nontrivial=nt, names_for=names_for, model_limit=400 if ctx.tier == "quick" else None)
    _combo(ctx)

def _combo(ctx):
    from .. import build, combo
    combo.run(ctx, build.xcp(), {"C02"}, 40 if ctx.tier == "quick" else 400, "C02")

def replay(ctx, path):
    nsprop.replay(ctx, "C02", path)
