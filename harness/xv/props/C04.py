"""C04: no silent failure - a failed step always yields a non-zero exit (exit 0 => complete and correct destination)."""
from ..common import rmtree as _rmtree
import json, os, shutil, time
from .. import build, ctlplane, evplane, nsplane, runner, s2e, tlc
from ..nsplane import E, SC
from ..common import rng, scratch, ToolError

ERRNOS = {
    "openat": ["EACCES", "EMFILE", "EIO"], "newfstatat": ["EACCES", "EIO"], "statx": ["EACCES", "EIO"], "getdents64": ["EIO", "EACCES"],
    "readlink": ["EIO", "EACCES"], "copy_file_range": ["EIO", "ENOSPC"], "ftruncate": ["ENOSPC", "EIO"], "mkdir": ["ENOSPC", "EACCES", "EROFS"],
    "symlink": ["EEXIST", "ENOSPC", "EACCES"], "mknodat": ["EPERM", "ENOSPC"], "rename": ["EACCES", "EROFS"], "unlink": ["EACCES", "EROFS"],
    "fchmod": ["EPERM", "EIO"], "utimensat": ["EPERM", "EIO"], "fsync": ["EIO", "ENOSPC"], "lseek": ["EIO", "EINVAL"], "ioctl": ["EIO", "EPERM", "ENOTTY"],
    "fchown": ["EPERM"], "fsetxattr": ["ENOSPC"], "flistxattr": ["EIO"], "fgetxattr": ["EIO"],
}
TOLERATED = {"fchown", "fsetxattr", "flistxattr", "fgetxattr"}       # documented warnings (C04 statement)
TRACE = ",".join(sorted(set(ERRNOS) | {"write", "pwrite64", "close", "fdatasync"}))     # read/pread64 are added per run when injected

def scenario(extra=None, name="all-ops", backup=True, old=False):
    def data(n, salt):
        return bytes((i * 3 + salt) % 251 + 1 for i in range(n))
    fs = [E("s", "dir", m=0o750)]
    def f(path, size, mode, mtime, x=None):
        e = E(path, "file", "C4-%s-%d" % (path, size), m=mode, t=mtime, x=x or {})
        e["meta"]["data"] = data(size, len(path)); fs.append(e)
    f("s/multi", 5000, 0o640, "1400000000111111111", {"user.k": "v"})
    f("s/empty", 0, 0o600, "1400000001222222222")
    f("s/small", 10, 0o4755, "1400000002333333333")
    fs.append(E("s/sub", "dir", m=0o700))
    f("s/sub/inner", 2500, 0o444, "1400000003444444444")
    fs.append(E("s/sub/deeper", "dir"))
    f("s/sub/deeper/leaf", 1, 0o601, "1400000004555555555")
    fs.append(E("s/link", "link", "multi"))
    fs.append(E("s/pipe", "fifo", m=0o622))
    # sparse file: the seek walk / extent mapping are steps too
    sp = E("s/sparse", "file", "C4-sparse", m=0o644, t="1400000005666666666")
    sp["meta"]["sparse"] = [1, 0, 0, 0, 1]
    fs.append(sp)
    # more than 32 extents: the extent map is fetched in several requests, each of which can fail
    sp2 = E("s/sparse40", "file", "C4-sparse40", m=0o644, t="1400000006777777777")
    sp2["meta"]["sparse"] = [1, 0] * 40
    fs.append(sp2)
    # destination already holds an older copy of two files: the backup rename is a step too
    fs += [E("d", "dir"), E("d/s", "dir")]
    o1 = E("d/s/multi", "file", "OLD1", m=0o600); o1["meta"]["data"] = b"old-one"
    o2 = E("d/s/pipe", "file", "OLD2"); o2["meta"]["data"] = b"old-two"
    fs += [o1, o2]
    if old:
        # every regular file is overwritten in place: non-zero old content that is longer than, as long as, or shorter than the new
        # one (discarding it is a step of the copy as well, and only matters where the new file has holes)
        o1["meta"]["data"] = b"\xff" * 9000
        for path, n in (("d/s/sparse", 30000), ("d/s/sparse40", 80 * 4096), ("d/s/small", 10), ("d/s/sub/inner", 100)):
            if path == "d/s/sub/inner":
                fs.append(E("d/s/sub", "dir"))
            o = E(path, "file", "OLD-" + path, m=0o600); o["meta"]["data"] = b"\xff" * n; fs.append(o)
    return SC(name, fs, ["s"], "d", extra=["--block-size", "1000", "--fsync"] + (["--backup", "numbered"] if backup else []) + (extra or []), cls="faults")

def scenario_one():
    e = E("s", "file", "C4-one", m=0o600, t="1400000000111111111")
    e["meta"]["data"] = bytes(range(1, 200)) * 25
    return SC("one-file", [e], ["s"], "d", r=False, extra=["--fsync"], cls="faults")

def run(ctx):
    binary = build.xcp()
    quick = ctx.tier == "quick"
    ctlplane.layer_a(ctx, quick)
    sc = scenario()
    files = [e for e in sc["fs0"] if e["k"] == "file" and e["p"][0] == "s"]
    rnd = rng("C04")
    jobs = []
    profiles = {}
    for drv in ("parfile", "parblock"):
        for w in (1, 4):
            # fault-free traced run: which calls does each thread issue
            o = nsplane.run_one(binary, sc, drv, "c04-prof-%s-%d" % (drv, w), strace={"trace": TRACE}, workers=w, keep=True)
            per = {}
            for r in s2e.parse(o["_run"]["trace"]):
                if r["kind"] == "sys":
                    per.setdefault(r["sys"], {}).setdefault(r["tid"], 0)
                    per[r["sys"]][r["tid"]] += 1
            _rmtree(o["_run"]["root"]); os.unlink(o["_run"]["trace"])
            if o["exit"] != 0:
                # the fault-free run of the campaign's own scenario fails: a behaviour of the program under test (not of the tooling),
                # and no silent failure either; the campaign goes on with the calls seen up to that point
                ctx.drift.append({"id": "c04-prof-%s-%d" % (drv, w), "exit": o["exit"], "model_expect_ok": True, "stderr": o["_run"]["stderr"][-300:]})
                from ..common import log
                log("MODEL-DRIFT: the fault-free run of C04's scenario exits %d (%s, workers=%d)" % (o["exit"], drv, w))
            counts = {s: max(c.values()) for s, c in per.items()}
            profiles["%s/w%d" % (drv, w)] = counts
            for sysc, errs in ERRNOS.items():
                n = counts.get(sysc, 0)
                cap = n if not quick else min(n, 16 if sysc == "ioctl" else 8)      # ioctl: clone attempts of every file come before the extent-map pages
                for when in range(1, cap + 1):
                    for err in (errs if (not quick or sysc in ("openat", "getdents64", "ioctl", "lseek")) else [errs[when % len(errs)]]):
                        jobs.append((drv, w, sysc, err, when, None))
            # a fault that follows a short count inside one block / one copy loop (the hook shortens, strace fails the next call)
            for when in range(1, (8 if quick else 30) + 1):
                for err in ["EIO"] if quick else ["EIO", "ENOSPC"]:
                    jobs.append((drv, w, "copy_file_range", err, when, "cfr.max=300"))
    # the same single faults aimed at ONE OBJECT (strace -P <path>: only calls touching that path are candidates): every
    # source and destination object x every call kind that can touch it; quick = seeded sample
    objs = sorted({"/".join(e["p"]) for e in sc["fs0"] if e["p"][0] == "s"} | {"d/" + "/".join(e["p"]) for e in sc["fs0"] if e["p"][0] == "s"})
    obj_jobs = []
    for o_ in objs:
        for sysc in ("openat", "statx", "newfstatat", "ftruncate", "copy_file_range", "fchmod", "utimensat", "fsync", "mkdir", "symlink", "mknodat", "getdents64", "lseek", "readlink"):
            for drv in ("parfile", "parblock"):
                obj_jobs.append((drv, 2, sysc, ERRNOS[sysc][0], 1, "OBJ:" + o_))
    if quick:
        obj_jobs = rnd.sample(obj_jobs, 140)
    jobs += obj_jobs
    # thorough: pairs of faults (two independent injections in one run)
    if not quick:
        singles = [j for j in jobs if j[5] is None]
        for _ in range(500):
            a, b = rnd.sample(singles, 2)
            if a[0] == b[0] and a[1] == b[1] and a[2] != b[2]:
                jobs.append((a[0], a[1], a[2], a[3], a[4], "PAIR:%s:%s:%d" % (b[2], b[3], b[4])))
    # second configuration: --ownership, so that the tolerated fchown failure is exercised together with what must follow it
    sc_own = scenario(extra=["--ownership"], name="all-ops-ownership")
    for drv in ("parfile", "parblock"):
        for sysc in ("fchown", "fsetxattr", "fchmod", "utimensat", "fsync"):
            for when in range(1, (6 if quick else 20) + 1):
                jobs.append((drv, 2, sysc, ERRNOS[sysc][0], when, "OWN"))
    # further configurations of the same tree (plan "VAR:<name>"): in-place overwrite of non-empty older copies (no backup);
    # --no-progress (another updater carries the workers' errors); a seeded subset of options that do not change the expected result
    neutral = [o for o in ["--no-progress", "-v", "--reflink=never", "--gitignore"] if rnd.random() < 0.5] or ["-v"]
    variants = {"OVR": scenario(name="all-ops-overwrite", backup=False, old=True),
                "NOPROG": scenario(extra=["--no-progress"], name="all-ops-noprogress"),
                "OVRNP": scenario(extra=["--no-progress"], name="all-ops-overwrite-noprogress", backup=False, old=True),
                "RND": scenario(extra=neutral, name="all-ops-" + "".join(neutral).replace("-", "")),
                # every clone request answered with success (hook): the files are finished on the reflink path of both drivers
                "CLONE": scenario(name="all-ops-cloned"),
                # the in-kernel copy answered EXDEV (hook): every byte goes through the user-space read/write fallback, whose calls fail in turn
                "USPACE": scenario(name="all-ops-uspace")}
    ctx.notes["variant RND"] = neutral
    for vn in variants:
        for drv in ("parfile", "parblock"):
            for sysc in ("ftruncate", "copy_file_range", "openat", "lseek", "ioctl", "fsync", "fchmod", "utimensat", "unlink", "mkdir", "symlink", "mknodat"):
                n = profiles["%s/w4" % drv].get(sysc, 0) + (4 if vn.startswith("OVR") else 0)
                idx = list(range(1, n + 1))
                if quick:
                    idx = idx[:4] + rnd.sample(idx[4:], min(len(idx[4:]), 2))
                for when in idx:
                    jobs.append((drv, 2, sysc, ERRNOS[sysc][when % len(ERRNOS[sysc])], when, "VAR:" + vn))
            if vn == "USPACE":
                for sysc in ("read", "pread64", "write", "pwrite64"):
                    for when in range(1, (10 if quick else 40) + 1):
                        jobs.append((drv, 2, sysc, ["EIO", "ENOSPC"][when % 2] if "write" in sysc else "EIO", when, "VAR:USPACE"))
    # --glob sources: the expansion of the patterns is a step too (a directory matched by a wildcard component that cannot be listed
    # must not just contribute no matches); faults aimed at each directory the expansion has to read (strace -P)
    gfs = [E("s", "dir"), E("d", "dir")]
    for dn in ("d1", "d2", "d3"):
        gfs.append(E("s/" + dn, "dir"))
        for fn in ("a%s.txt" % dn, "b%s.txt" % dn):          # distinct base names: the matches map to distinct destinations
            gfs.append(E("s/%s/%s" % (dn, fn), "file", "G-%s-%s" % (dn, fn)))
    gsrc = ["s/%s/a%s.txt" % (dn, dn) for dn in ("d1", "d2", "d3")]
    variants["GLOB"] = SC("glob-expansion", gfs, gsrc, "d", r=False, glob=["s/d*/a*.txt"], extra=["--fsync"], cls="faults")
    for drv in ("parfile", "parblock"):
        for obj in ("s", "s/d1", "s/d2", "s/d3", "s/d2/ad2.txt"):
            for sysc in ("openat", "getdents64", "statx", "newfstatat"):
                for when in (1, 2):
                    jobs.append((drv, 2, sysc, ERRNOS[sysc][0], when, "VAR:GLOB@" + obj))
    # third: one single-block file, every finalisation call of one kind failing, repeated: whichever thread ends up
    # holding the last reference to the handle has to report the failure
    sc_one = scenario_one()
    # every second repetition also perturbs the schedule (strace delays the return of futex/close/ftruncate calls: the dispatcher
    # is held right after handing a block to the pool, or a worker right after its copy), so that both orders of release occur
    for rep in range(24 if quick else 300):
        for sysc in ("fsync", "fchmod", "utimensat", "copy_file_range"):
            pert = "" if rep % 2 == 0 else "+%s:delay_exit=%d" % (rnd.choice(["futex", "futex", "close", "ftruncate"]), rnd.choice([300, 1000, 3000]))
            jobs.append(("parblock", [1, 2, 4, 8][rep % 4], sysc, "EIO", 0, "ONE%d%s" % (rep, pert)))
        # a failing block copy with the dispatcher held at the wake-up of the pool (it then is the last holder of the handle)
        jobs.append(("parblock", [8, 4, 8, 16][rep % 4], "copy_file_range", "EIO", 0, "ONE%dw+futex:delay_exit=%d" % (rep, [300, 1000, 3000][rep % 3])))
    ctx.notes["syscall_profile(max per thread)"] = profiles
    def one(j):
        drv, w, sysc, err, when, plan = j
        rid = "c04-%s-w%d-%s-%s-%d%s" % (drv, w, sysc, err, when, "-" + plan.replace("=", "") if plan else "")
        the_sc = sc_own if plan == "OWN" else (sc_one if plan and plan.startswith("ONE") else (variants[plan[4:].split("@")[0]] if plan and plan.startswith("VAR:") else sc))
        only = plan[4:] if plan and plan.startswith("OBJ:") else (plan.split("@", 1)[1] if plan and plan.startswith("VAR:") and "@" in plan else None)
        env = {"XCP_VERIF_PLAN": plan} if plan and plan.startswith("cfr") else ({"XCP_VERIF_PLAN": "clone=emulate"} if plan == "VAR:CLONE" else ({"XCP_VERIF_PLAN": "cfr.errno=18"} if plan == "VAR:USPACE" else None))
        inj_spec = "%s:error=%s:when=%d" % (sysc, err, when) if when > 0 else "%s:error=%s" % (sysc, err)
        rid = rid.replace("/", "_").replace(":", "")
        root_guess = os.path.join(scratch(), "ns-%s" % rid)
        st_ = {"trace": TRACE, "inject": [inj_spec]}
        if plan and plan.startswith("ONE") and "+" in plan:
            st_["inject"].append(plan.split("+", 1)[1])
        if plan and plan.startswith("PAIR:"):
            _, s2, e2, w2 = plan.split(":")
            st_["inject"].append("%s:error=%s:when=%s" % (s2, e2, w2))
        if only:
            st_["extra"] = ["-P", os.path.join(root_guess, only)]
        o = nsplane.run_one(binary, the_sc, drv, rid, workers=w, keep=True, timeout=90, env=env, strace=st_)
        inj = []
        try:
            with open(o["_run"]["trace"], errors="replace") as f:
                for line in f:
                    if "(INJECTED)" in line:
                        inj.append(line.strip()[:160])
        except OSError:
            pass
        recs, n = evplane.records(rid, o["_run"]["trace"], o["_run"]["root"], ["s"], ["d"], {"fsync": True, "reflink": "auto"}, o["exit"])
        _rmtree(o["_run"]["root"])
        try:
            os.unlink(o["_run"]["trace"])
        except OSError:
            pass
        o["_run"]["injected"] = inj
        return o, recs
    res = runner.pmap(one, jobs)
    nsv, st1 = nsplane.judge([r[0] for r in res])
    evv, st2 = evplane.judge([r[1] for r in res], len(res))
    ctx.states += st1["distinct"] + st2["distinct"]; ctx.transitions += st1["generated"] + st2["generated"]
    ctx.tlc_jobs.append({"job": "Trace_NS + Trace_Ev verdicts on fault runs", "runs": len(res), "events": st2["events"], "wall_s": round(st1["wall"] + st2["wall"], 2)})
    # metadata of regular files on exit-0 runs: Trace_Meta
    mrecs, mwho = [], []
    for j, (o, recs) in zip(jobs, res):
        if o["exit"] != 0 or not o["_run"]["injected"]:
            continue
        before = {tuple(e["p"]): e for e in o["before"]}; after = {tuple(e["p"]): e for e in o["after"]}
        if j[5] and j[5].startswith("ONE"):
            continue
        for e in files:
            s = before.get(tuple(e["p"])); d = after.get(("d",) + tuple(e["p"]))
            if s is None or d is None:
                continue
            sm, smt, su, sg, sx, _ = s["md"].split("|"); dm, dmt, du, dg, dx, _ = d["md"].split("|")
            tol = j[2] in TOLERATED
            mrecs.append({"id": "%s:%s" % (o["run"], "/".join(e["p"])), "exit": 0, "noperms": False, "notimes": False, "ownership": False,
                          "smode": int(sm, 8), "dmode": int(dm, 8), "pmode": -1, "umask": 18, "smtime": smt, "dmtime": dmt, "dmtimeRelMs": 0, "runMs": 0,
                          "suid": 0, "sgid": 0, "duid": 0, "dgid": 0, "sx": "" if tol else sx, "dx": "" if tol else dx})
            mwho.append(j)
    mverd = []
    if mrecs:
        mm = tlc.monitor("Trace_Meta", "Trace_Meta.cfg", mrecs)
        mverd = [v for t, v in mm.printed if t == "VERDICT"]
        ctx.states += mm.distinct; ctx.transitions += mm.generated
    injected_calls = 0
    for j, (o, recs), nv, ev in zip(jobs, res, nsv, evv):
        drv, w, sysc, err, when, plan = j
        inj = o["_run"]["injected"]
        if not inj:
            continue                      # the point does not exist in this schedule: not a fault run
        ctx.traces += 1
        injected_calls += len(inj)
        ctx.case((drv, w, sysc, err, when, plan), True)
        if o["exit"] == 0:
            why = []
            if "C02" in nv["viol"]:
                why.append("destination tree differs from the expected one")
            if plan and plan.startswith("OBJ:") and False:
                pass
            if plan and plan.startswith("ONE"):
                why.append("every %s on the destination failed, yet the run reports success" % sysc)
            if "C18" in ev["viol"] and sysc not in ():
                why.append("no successful fsync after the last write of " + ",".join(ev["unsynced"][:3]))
            if why:
                ctx.violation("C04: exit 0 although %s failed with %s (%s, workers=%d, per-thread call #%d%s): %s; injected: %s" %
                              (sysc, err, drv, w, when, (", after short counts (%s)" % plan if plan.startswith("cfr") else ", campaign %s" % plan) if plan else "", "; ".join(why), inj[:2]),
                              {"kind": "c04", "driver": drv, "workers": w, "syscall": sysc, "errno": err, "when": when, "plan": plan, "injected": inj,
                               "ns_verdict": nv, "ev_verdict": ev, "stderr": o["_run"]["stderr"]},
                              sig={"syscall": sysc, "driver": drv, "class": "stat" if sysc in ("newfstatat", "statx") else "other"})
        if o["exit"] == -7:
            ctx.other.append({"clause": "C07", "id": "timeout under fault", "point": list(j)})
    for rec, v, j in zip(mrecs, mverd, mwho):
        if v["viol"]:
            ctx.violation("C04: exit 0 although %s failed, but %s of %s not applied" % (j[2], ",".join(v["viol"]), rec["id"]),
                          {"kind": "c04-meta", "record": rec, "point": list(j)}, sig={"syscall": j[2], "driver": j[0], "class": "meta"})
    # ---- the backup rename is a step too: a failing rename (or directory scan) during a numbered/auto overwrite must not
    #      end in "exit 0 without the backup"; judged by the backup contract (Trace_Backup)
    from . import C09
    bjobs = []
    hist = {"init": [[["a"], "S0"], [["a", 2], "S2"]], "steps": [{"name": ["a"], "mode": "numbered", "v": "V1"}]}
    hist2 = {"init": [[["a"], "S0"], [["a", 1], "S1"]], "steps": [{"name": ["a"], "mode": "auto", "v": "V1"}]}
    for drv in ("parfile", "parblock"):
        for hi, h in enumerate((hist, hist2)):
            for inj in ("rename:error=EACCES:when=1", "rename:error=EROFS:when=1", "rename:error=EIO:when=1", "getdents64:error=EIO:when=1", "getdents64:error=EIO:when=2",
                        "getdents64:error=EACCES:when=3"):
                bjobs.append((h, "c04b-%d-%s-%s" % (hi, drv, inj.replace(":", "_").replace("=", "")), drv, inj))
    bres = runner.pmap(lambda j: C09.replay_history(binary, j[0], j[1], j[2], C09.BASES["plain"], inject=j[3]), bjobs)
    brecs = [x for rr in bres for x in rr]
    bm = tlc.monitor("Trace_Backup", "Trace_Backup.cfg", [{k: v for k, v in x.items() if not k.startswith("_")} for x in brecs])
    bver = [v for t, v in bm.printed if t == "VERDICT"]
    ctx.states += bm.distinct; ctx.transitions += bm.generated
    for rec, v in zip(brecs, bver):
        ctx.traces += 1; ctx.case(rec["id"], True)
        # C04 is the implication "exit 0 => complete": only the listing clause (evaluated for exit 0) belongs here; a backup
        # damaged by a run that DID report failure is a matter for C03 (bystanders under injected failures), which has the same pass
        if "listing" in v["viol"]:
            ctx.violation("C04: backup step under fault %s: exit 0 but the result is not old->backup, new->name; before=%s after=%s" % (rec["id"], rec["before"], rec["after"]),
                          {"kind": "c04-backup", "record": {k: x for k, x in rec.items() if not k.startswith("_")}}, sig={"class": "backup"})
        elif v["viol"]:
            ctx.other.append({"clause": "C03", "id": rec["id"], "what": v["viol"]})
    ctx.notes["backup_fault_runs"] = len(brecs)
    ctx.notes["injected_calls"] = injected_calls
    ctx.notes["fault_points_planned"] = len(jobs)
    ctx.sample({"scenario": "all-ops: nested dirs, multi-block/empty/small/sparse files, link, fifo, older copy at the destination; argv extra %s" % sc["extra"]})
    ctx.sample({"point": list(jobs[0]), "injected": res[0][0]["_run"]["injected"][:2], "exit": res[0][0]["exit"]})
    ctx.rule = ("single injected failure (errno from EIO/ENOSPC/EACCES/EMFILE/EROFS/EEXIST/EPERM as applicable) at each per-thread call index of "
                "openat, stat, getdents64, readlink, copy_file_range, ftruncate, mkdir, symlink, mknodat, rename, unlink, fchmod, utimensat, fsync, "
                "lseek, ioctl, fchown, xattr calls, on a tree with every operation kind, --fsync --backup numbered, both drivers, workers {1,4}; "
                "TLC judges: exit 0 => tree = expected (Trace_NS), modes/mtimes/xattrs applied (Trace_Meta), successful fsync after the last write "
                "(Trace_Ev); xattr/ownership failures tolerated. non-trivial = a run in which strace reports the call as INJECTED; distinct by "
                "(driver, workers, syscall, errno, index)")

def replay(ctx, path):
    print(open(path).read()[:3000])
