"""C08: --no-clobber never alters anything that already exists in the destination; a colliding non-directory => non-zero exit."""
from .. import nsplane, nsprop
from ..common import rng

def run(ctx):
    rnd = rng("C08")
    scs = nsplane.family_noclobber(rnd, ctx.tier)
    extra = [s for s in nsplane.family_random(rnd, 150 if ctx.tier == "quick" else 2000)]
    for s in extra:
        s["n"] = True; s["id"] = "nc-" + s["id"]
    scs += extra
    ctx.rule = ("pre-populated destinations with colliding files, directories, links (incl. dangling), fifos at first/last/deep walk positions, "
                "sibling sets of 12+ files so workers are busy when the collision is met, -T and plain, single-file forms; seeded random "
                "scenarios forced to --no-clobber; both drivers; repeated with workers 1 and 8; non-trivial = a pre-existing entry is a mapped target")
    def nt(sc):
        return any(e["p"][0] == "d" and len(e["p"]) > 1 for e in sc["fs0"]) or any(e["p"] == ["d"] and e["k"] != "dir" for e in sc["fs0"])
    def workers_for(sc, d):
        return rng("C08w", sc["id"], d).choice([1, 2, 8])
    nsprop.run(ctx, "C08", scs, nontrivial=nt, workers_for=workers_for)

def replay(ctx, path):
    nsprop.replay(ctx, "C08", path)
