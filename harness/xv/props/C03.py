"""C03: sources and bystanders are never modified - by self-copies through any alias, by failing runs, or by kills."""
from .. import build, nsplane, nsprop
from ..common import rng

ERR_FOR = {"openat": ["EACCES", "EMFILE"], "ftruncate": ["ENOSPC"], "copy_file_range": ["EIO"], "fchmod": ["EPERM"],
           "utimensat": ["EPERM"], "rename": ["EACCES"], "mkdir": ["ENOSPC"], "symlink": ["EEXIST"], "mknodat": ["EPERM"],
           "unlink": ["EACCES"], "fsync": ["EIO"], "statx": ["EIO", "EACCES"], "newfstatat": ["EIO", "EACCES"]}

def campaign_scenarios():
    E, SC, tree = nsplane.E, nsplane.SC, nsplane.tree
    src = tree("s", {"a": "F1", "b": "F2", "sub": {"c": "F3"}, "l": ("link", "a"), "p": ("fifo",)})
    out = [SC("camp-overwrite", src + tree("d", {"s": {"a": "G1", "sub": {"c": "G3"}}, "keep": "F7"}) + [E("by", "file", "F6")], ["s"], "d", cls="campaign"),
           SC("camp-fresh", src + [E("by", "file", "F6")], ["s"], "d", cls="campaign"),
           SC("camp-backup", src + tree("d", {"s": {"a": "G1", "b": "G2"}}) + [E("by", "file", "F6")], ["s"], "d", extra=["--backup", "numbered"], cls="campaign"),
           SC("camp-alias-file", [E("f", "file", "F1"), E("l", "link", "f"), E("by", "file", "F6")], ["f"], "l", r=False, cls="campaign"),
           SC("camp-alias-dir", tree("dd", {"x": "F1", "e": {"y": "F2"}}) + [E("by", "file", "F6")], ["dd"], "dd/..", cls="campaign")]
    return out

def run(ctx):
    rnd = rng("C03")
    scs = nsplane.family_alias(rnd, ctx.tier)
    scs += nsplane.family_mapping(rnd, "quick")[::7] if ctx.tier == "quick" else nsplane.family_mapping(rnd, "thorough")[::2]
    ra = nsplane.family_alias_random(rnd, 60 if ctx.tier == "quick" else 1200)
    for sc in ra[min(len(ra) // 3, 150):]:
        sc["nomodel"] = True              # Layer A explores a third of them exhaustively; all are run and judged
    scs += ra
    if ctx.tier == "thorough":
        for sc in scs:
            if sc.get("repeat"):
                sc["repeat"] *= 6         # the late-alias races
    ctx.rule = ("alias family: destination designates the source by ./f, sub/../f, its own directory, absolute spelling, symlink (relative, "
                "absolute, chain, inside the target directory), hard link (both directions), linked directory, directory onto its parent / "
                "itself / through a link with -T, linked source roots; plus kill campaign (SIGKILL at the N-th mutating system call of a "
                "thread, every N until the run completes) and single-fault campaign (one failing call per run) on overwrite/fresh/backup/alias "
                "scenarios; both drivers. Oracle: every entry below a source root and every entry that is not a mapped destination is "
                "bit-identical (kind, content, mode, mtime, owner, xattrs, inode) after the run, whatever the exit status or signal. "
                "non-trivial = alias relation other than none, or a kill/fault point distinct by (scenario, driver, point)")
    camp = campaign_scenarios()
    def extra_runs(binary):
        obs = []
        step = 1 if ctx.tier == "thorough" else 2
        for sc in camp:
            for d in nsprop.DRIVERS:
                counts, maxper, _ = nsplane.profile(binary, sc, d)
                for nw in ((2,) if ctx.tier == "quick" else (1, 2, 4)):
                    obs += nsplane.kill_runs(binary, sc, d, nsplane.kill_points(counts, step), workers=nw, tag="kill%d" % nw)
                    fpts = []
                    for sysc, errs in ERR_FOR.items():
                        for w in range(1, min(counts.get(sysc, 0), 6 if ctx.tier == "quick" else 40) + 1):
                            for err in (errs if ctx.tier == "thorough" else [errs[w % len(errs)]]):
                                fpts.append((sysc, err, w))
                    obs += nsplane.fault_runs(binary, sc, d, fpts, workers=nw, tag="fault%d" % nw)
        ctx.notes["kill_and_fault_runs"] = len(obs)
        return obs
    def nt(sc):
        return sc is None or sc["cls"] in ("alias", "campaign")
    nsprop.run(ctx, "C03", scs + camp, nontrivial=nt, extra_runs=extra_runs)
    # existing backups are bystanders too: an overwrite in a backup mode under injected failures (rename, directory scan)
    # must leave every existing <name>.~N~ intact, whatever the exit status (contract evaluated by Trace_Backup)
    from . import C09
    from .. import build, runner, tlc
    binary = build.xcp()
    hists = [{"init": [[["a"], "S0"], [["a", 2], "S2"]], "steps": [{"name": ["a"], "mode": "numbered", "v": "V1"}]},
             {"init": [[["a"], "S0"], [["a", 1], "S1"]], "steps": [{"name": ["a"], "mode": "auto", "v": "V1"}]},
             {"init": [[["a"], "S0"], [["a", 1], "S1"], [["a", 2], "S2"], [["ab"], "T0"], [["ab", 1], "T1"]], "steps": [{"name": ["a"], "mode": "numbered", "v": "V1"}]}]
    bjobs = []
    for drv in nsprop.DRIVERS:
        for hi, h in enumerate(hists):
            for sysc, errs in (("rename", ["EACCES", "EIO"]), ("getdents64", ["EIO", "EACCES"]), ("openat", ["EMFILE"]), ("ftruncate", ["ENOSPC"])):
                for w in (1, 2, 3, 4):
                    for err in errs:
                        bjobs.append((h, "c03b-%d-%s-%s-%s-%d" % (hi, drv, sysc, err, w), drv, "%s:error=%s:when=%d" % (sysc, err, w)))
    bres = runner.pmap(lambda j: C09.replay_history(binary, j[0], j[1], j[2], C09.BASES["plain"], inject=j[3]), bjobs)
    brecs = [x for rr in bres for x in rr]
    bm = tlc.monitor("Trace_Backup", "Trace_Backup.cfg", [{k: v for k, v in x.items() if not k.startswith("_")} for x in brecs])
    bver = [v for t, v in bm.printed if t == "VERDICT"]
    ctx.states += bm.distinct; ctx.transitions += bm.generated
    for rec, v in zip(brecs, bver):
        ctx.traces += 1; ctx.case(rec["id"], True)
        if "backup-modified" in v["viol"] or "version-lost" in v["viol"]:
            ctx.violation("C03: existing backup damaged by a faulted overwrite %s: %s; before=%s after=%s exit=%d" % (rec["id"], ",".join(v["viol"]), rec["before"], rec["after"], rec["exit"]),
                          {"kind": "c03-backup", "record": {k: x for k, x in rec.items() if not k.startswith("_")}}, sig={"class": "backup-fault"})
    ctx.notes["backup_fault_runs"] = len(brecs)
    nsprop.nonvacuity(ctx, [s for s in scs if s["cls"] == "alias"], "InvC03")

def replay(ctx, path):
    nsprop.replay(ctx, "C03", path)
