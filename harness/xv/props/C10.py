"""C10: permissions, timestamps, xattrs and ownership are preserved as requested."""
from ..common import rmtree as _rmtree
import json, os, shutil, stat, time
from .. import build, ctlplane, evplane, fsmat, nsplane, runner, tlc
from ..nsplane import E, SC
from ..common import rng, scratch, ToolError

MTIMES = ["1", "999999999", "1234567890123456789", "946684800000000001", "4102444800987654321", "1600000000500000000",
          "-1", "-99500000000", "-1000000000", "-86399000000001"]          # before the epoch: whole seconds negative, fraction still counted forwards
XATTRS = [{}, {"user.one": "1"}, {"user.a": "alpha", "user.b": "", "user.long": "x" * 300}]
OWNERS = [(0, 0), (1000, 1000), (65534, 7), (1, 65534)]

def build_tree(rnd, modes, with_prior):
    fs = [E("s", "dir")]
    for i, m in enumerate(modes):
        size = [0, 1, 700, 5000][i % 4] if i % 11 else 9000
        e = E("s/f%04d" % i, "file", "M-%d-%d" % (i, size), m=m, t=MTIMES[i % len(MTIMES)], x=XATTRS[i % len(XATTRS)])
        u, g = OWNERS[(i // 3) % len(OWNERS)]
        e["meta"].update({"u": u, "g": g, "data": bytes((j * 5 + i) % 251 + 1 for j in range(size))})
        fs.append(e)
    if with_prior:
        fs.append(E("d", "dir"))
        for i, m in enumerate(modes):
            if i % 2 == 0:
                e = E("d/f%04d" % i, "file", "P-%d" % i, m=[0o600, 0o644, 0o751, 0o4711][i % 4], t="1111111111000000000")
                e["meta"]["data"] = b"prior" * (i % 7 + 1)
                fs.append(e)
    return fs

def run(ctx):
    binary = build.xcp()
    quick = ctx.tier == "quick"
    ctlplane.layer_a(ctx, quick, nonvacuity=False, liveness=False)
    r = tlc.run("MC_Final", "MC_Final.cfg", workers=2)
    ctx.tlc("XcpFinal: finalisation steps in code order against the kernel's chown rule (all mode-bit classes x flags)", r)
    if r.violated:
        ctx.model_violation("MC_Final", r)
    d = tlc.run("MC_Final", "MC_Final_dev.cfg", workers=2)
    ctx.tlc("XcpFinal with the pinned order chmod->chown (non-vacuity)", d)
    if d.violated != "ModePreserved":
        raise ToolError("non-vacuity: pinned finalisation order does not violate ModePreserved")
    rnd = rng("C10")
    modes = list(range(0o10000)) if not quick else sorted(set(rnd.sample(range(0o10000), 232) + [0, 0o7777, 0o4755, 0o2755, 0o1777, 0o6711, 0o4000, 0o2000, 0o1000,
                                                                                              0o644, 0o600, 0o444, 0o755, 0o4711, 0o2711, 0o6755]))
    combos = []
    for noperms in (False, True):
        for notimes in (False, True):
            for own in (False, True):
                combos.append((noperms, notimes, own))
    jobs = []
    for ci, (noperms, notimes, own) in enumerate(combos):
        for drv in ("parfile", "parblock"):
            for prior in (False, True):
                if quick and prior and ci % 2 == 1 and drv == "parfile":
                    continue
                extra = ["--block-size", "1000"] + (["-vv"] if (ci + prior) % 3 == 0 else []) + (["--no-perms"] if noperms else []) + (["--no-timestamps"] if notimes else []) + (["--ownership"] if own else [])
                part = modes if not quick else modes[(ci * 31) % 7::2]
                fs = build_tree(rnd, part, prior)
                sc = SC("meta-%d%d%d-%s-%s" % (noperms, notimes, own, drv, "over" if prior else "fresh"), fs, ["s"], "d", T=True, extra=extra, cls="meta")
                sc["umask"] = rnd.choice([0o022, 0o077, 0o002, 0])
                jobs.append((sc, drv, (noperms, notimes, own), part, prior))
    def one(j):
        sc, drv, flags, part, prior = j
        t0 = time.time_ns()
        o = nsplane.run_one(binary, sc, drv, "c10-" + sc["id"], workers=rng("C10w", sc["id"]).choice([1, 2, 4, 8]))
        t1 = time.time_ns()
        return o, t0, t1
    # chmod on a file with mode 000 etc. needs root: the sandbox runs as root (checked)
    if os.geteuid() != 0:
        raise ToolError("C10 needs root (ownership, arbitrary modes)")
    res = runner.pmap(one, jobs, workers=6)
    recs, meta = [], []
    for (sc, drv, (noperms, notimes, own), part, prior), (o, t0, t1) in zip(jobs, res):
        before = {tuple(e["p"]): e for e in o["before"]}
        after = {tuple(e["p"]): e for e in o["after"]}
        for i, m in enumerate(part):
            name = "f%04d" % i
            s = before.get(("s", name)); dd = after.get(("d", name)); pp = before.get(("d", name))
            if s is None:
                continue
            def md(e):
                mo, mt, u, g, x, ino = e["md"].split("|")
                return int(mo, 8), mt, int(u), int(g), x
            sm, smt, su, sg, sx = md(s)
            if dd is None:
                dm, dmt, du, dg, dx = -1, "", -1, -1, "?"
            else:
                dm, dmt, du, dg, dx = md(dd)
            rel = (int(dmt) - t0) // 1000000 if dmt else -10 ** 9
            rel = max(-2 ** 30, min(2 ** 30, rel))
            recs.append({"id": "%s/%s" % (sc["id"], name), "exit": o["exit"] if dd is not None or o["exit"] != 0 else 0, "noperms": noperms, "notimes": notimes, "ownership": own,
                         "smode": sm, "dmode": dm, "pmode": md(pp)[0] if pp is not None else -1, "umask": sc["umask"], "smtime": smt, "dmtime": dmt,
                         "dmtimeRelMs": rel, "runMs": (t1 - t0) // 1000000 + 1, "suid": su, "sgid": sg, "duid": du, "dgid": dg, "sx": sx, "dx": dx})
            meta.append((sc, drv, i, m))
        if o["exit"] != 0:
            ctx.drift.append({"id": sc["id"], "exit": o["exit"], "stderr": o["_run"]["stderr"][-300:]})
    # two-step histories: the second invocation finds destinations whose mode (or owner, or times) already equal the source's
    import shutil
    from .. import fsmat
    hist_modes = [0o4755, 0o2755, 0o6775, 0o6711, 0o644, 0o1777, 0o4000]
    steps = [([], ["--ownership"]), (["--ownership"], []), (["--no-perms"], ["--ownership"]), (["--no-timestamps"], []), ([], ["--no-perms", "--ownership"])]
    def hist(j):
        drv, (first, second), k = j
        fs = build_tree(rnd, hist_modes, False)
        sc = SC("hist-%s-%d" % (drv, k), fs, ["s"], "d", T=True, extra=["--block-size", "1000"], cls="meta"); sc["umask"] = 0o022
        root = os.path.join(scratch(), "c10h-%s-%d" % (drv, k))
        _rmtree(root); os.makedirs(root)
        names = fsmat.Names(); contents = fsmat.materialise(root, nsplane.mat_entries(sc), names)
        sc1 = dict(sc); sc1["extra"] = sc["extra"] + first
        r1 = runner.run_xcp(binary, nsplane.cli(sc1, drv, names, root, 2), cwd=root, umask=0o022)
        mid = {tuple(e["p"]): e for e in nsplane.observe(fsmat.snapshot(root, names, contents))}
        sc2 = dict(sc); sc2["extra"] = sc["extra"] + second
        t0 = time.time_ns()
        r2 = runner.run_xcp(binary, nsplane.cli(sc2, drv, names, root, 2), cwd=root, umask=0o022)
        t1 = time.time_ns()
        end = {tuple(e["p"]): e for e in nsplane.observe(fsmat.snapshot(root, names, contents))}
        _rmtree(root)
        out = []
        def md(e):
            mo, mt, u, g, x, ino = e["md"].split("|"); return int(mo, 8), mt, int(u), int(g), x
        for i, m in enumerate(hist_modes):
            s = end.get(("s", "f%04d" % i)); dd = end.get(("d", "f%04d" % i)); pp = mid.get(("d", "f%04d" % i))
            if not (s and dd and pp):
                continue
            sm, smt, su, sg, sx = md(s); dm, dmt, du, dg, dx = md(dd)
            rel = max(-2 ** 30, min(2 ** 30, (int(dmt) - t0) // 1000000))
            out.append(({"id": "%s/f%04d(%s then %s)" % (sc["id"], i, " ".join(first) or "plain", " ".join(second) or "plain"), "exit": r2.exit if r2.exit is not None else -9,
                         "noperms": "--no-perms" in second, "notimes": "--no-timestamps" in second, "ownership": "--ownership" in second,
                         "smode": sm, "dmode": dm, "pmode": md(pp)[0], "umask": 0o022, "smtime": smt, "dmtime": dmt, "dmtimeRelMs": rel,
                         "runMs": (t1 - t0) // 1000000 + 1, "suid": su, "sgid": sg, "duid": du, "dgid": dg, "sx": sx, "dx": dx}, (sc2, drv, i, m)))
        return out
    hjobs = [(drv, st, k) for drv in ("parfile", "parblock") for k, st in enumerate(steps)]
    for part in runner.pmap(hist, hjobs, workers=5):
        for rec, who in part:
            recs.append(rec); meta.append(who)
    ctx.notes["two_step_histories"] = len(hjobs)
    verdicts = []
    for i in range(0, len(recs), 5000):
        mres = tlc.monitor("Trace_Meta", "Trace_Meta.cfg", recs[i:i + 5000])
        verdicts += [v for t, v in mres.printed if t == "VERDICT"]
        ctx.states += mres.distinct; ctx.transitions += mres.generated
    if len(verdicts) != len(recs):
        raise ToolError("Trace_Meta: %d verdicts for %d records" % (len(verdicts), len(recs)))
    for rec, v, (sc, drv, i, m) in zip(recs, verdicts, meta):
        ctx.traces += 1
        nt = (m & 0o7000) != 0 or (m & 0o777) not in (0o644, 0o755) or rec["sx"] != "" or rec["ownership"] or not rec["smtime"].endswith("000000000")
        ctx.case(rec["id"], nt)
        if v["viol"]:
            ctx.violation("C10: %s: %s not preserved as requested (src mode %o -> dst %o, prior %s; mtime %s -> %s; owner %d:%d -> %d:%d; flags noperms=%s notimes=%s ownership=%s)" %
                          (rec["id"], ",".join(v["viol"]), rec["smode"], rec["dmode"], oct(rec["pmode"]) if rec["pmode"] >= 0 else "-", rec["smtime"], rec["dmtime"],
                           rec["suid"], rec["sgid"], rec["duid"], rec["dgid"], rec["noperms"], rec["notimes"], rec["ownership"]),
                          {"kind": "c10", "record": rec, "argv_extra": sc["extra"], "driver": drv, "umask": sc["umask"]},
                          sig={"scenario": sc["id"], "clauses": ",".join(sorted(v["viol"]))})
    from .. import combo
    combo.run(ctx, binary, {"C10"}, 40 if quick else 400, "C10")
    ctx.sample(recs[0]); ctx.sample(recs[len(recs) // 2])
    ctx.notes["files_judged"] = len(recs); ctx.notes["runs"] = len(jobs)
    ctx.rule = ("%d modes out of 0..07777 (%s) x mtimes {1 ns, sub-second past, far future, before the epoch with and without a fraction, ...} x xattr sets {none, one, three incl. empty and 300-byte "
                "values} x uid/gid pairs, in trees copied with each combination of --no-perms/--no-timestamps/--ownership, both drivers, fresh and "
                "overwritten destinations, 1- and multi-block files, umask {0,002,022,077}; one record per (run, file) judged by TLC (Trace_Meta). "
                "non-trivial = special bit or unusual permission, sub-second mtime, xattrs, or ownership requested; distinct by (run, file)"
                % (len(modes), "all" if not quick else "seeded sample + corner cases"))

def replay(ctx, path):
    print(open(path).read()[:3000])
