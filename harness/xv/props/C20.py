"""C20: open descriptors stay bounded regardless of how many files are copied."""
from ..common import rmtree as _rmtree
import json, os, shutil
from .. import build, ctlplane, evplane, fsmat, nsplane, runner
from ..nsplane import E, SC
from ..common import rng, scratch, ToolError

def big_tree(n, multi=3):
    fs = [E("s", "dir")]
    for i in range(n):
        d = "s/d%02d" % (i % 20)
        if i < 20:
            fs.append(E(d, "dir"))
        size = 0 if i % 10 == 0 else (3000 if i % 97 == 0 else 1 + i % 50)
        e = E("%s/f%05d" % (d, i), "file", "T%d" % (i % 50 + 1 if size else 0))
        e["meta"]["data"] = bytes([i % 251 + 1]) * size
        fs.append(e)
    return fs

CONFIGS = [
    # (driver, workers, extra argv, strace delay injection)
    # the slow-downs are chosen so that the dispatcher outruns the workers and the back-pressure bound is reached well within N files
    # (generously: the bound must also be reached when the machine is busy and the dispatcher itself is slow)
    ("parblock", 4, [], "copy_file_range:delay_exit=60000"),
    ("parblock", 64, [], "copy_file_range:delay_exit=1000000"),
    ("parblock", 1, [], "copy_file_range:delay_exit=20000"),
    ("parfile", 8, ["--fsync"], "fsync:delay_exit=4000"),
    ("parfile", 64, [], "copy_file_range:delay_exit=20000"),
    ("parfile", 1, [], None),
]

def run(ctx):
    binary = build.xcp()
    quick = ctx.tier == "quick"
    ctlplane.layer_a(ctx, quick, nonvacuity=False, liveness=False)
    N = 600 if quick else 5000
    sizes = (N, 4 * N)
    trees = {n: big_tree(n) for n in sizes}
    jobs = [(n, cfgi) for cfgi in range(len(CONFIGS)) for n in sizes]
    def one(j):
        n, ci = j
        drv, w, extra, inj = CONFIGS[ci]
        sc = SC("tree%d" % n, trees[n], ["s"], "d", extra=["--block-size", "1000"] + extra, cls="fds")
        rid = "c20-%d-%s-w%d-%d" % (n, drv, w, ci)
        root = os.path.join(scratch(), "ns-" + rid)
        st = {"trace": "openat,open,close,copy_file_range,fsync,dup,dup2,dup3", "inject": [inj] if inj else []}
        # same flow as nsplane.run_one but with RLIMIT_NOFILE = 1024 as the property states
        names = fsmat.Names()
        _rmtree(root); os.makedirs(root)
        contents = fsmat.materialise(root, nsplane.mat_entries(sc), names)
        st["out"] = root + ".strace"
        r = runner.run_xcp(binary, nsplane.cli(sc, drv, names, root, w), cwd=root, strace=st, timeout=600, nofile=1024)
        # destination completeness (projection): number of source files absent or different at the destination
        missing = 0
        for e in sc["fs0"]:
            if e["k"] == "file":
                p = os.path.join(root, "d", *e["p"][1:])
                try:
                    with open(p, "rb") as f:
                        if f.read() != e["meta"]["data"]:
                            missing += 1
                except OSError:
                    missing += 1
        ex = (-9 if r.exit is None else r.exit) if not r.timed_out else -7
        recs, nev = evplane.records(rid, st["out"], root, ["s"], ["d"], {"fsync": False, "reflink": "auto", "driver": drv, "workers": w}, ex, must_succeed=True, missing=missing,
                                    only={"open", "close"})
        _rmtree(root)
        try:
            os.unlink(st["out"])
        except OSError:
            pass
        return recs, ex, missing, r.stderr[-300:], r.wall
    res = runner.pmap(one, jobs, workers=4)
    # first pass: peaks of the N-file runs; then the 4N runs are judged against them
    v1, st1 = evplane.judge([r[0] for r in res], len(res))
    peaks = {}
    for (n, ci), v in zip(jobs, v1):
        if n == sizes[0]:
            peaks[ci] = v["peak"]
    all_recs = []
    for (n, ci), r in zip(jobs, res):
        recs = r[0]
        if n == sizes[1]:
            recs[0]["peakBase"] = peaks[ci]; recs[0]["fdSlack"] = 8 + peaks[ci] // 4      # tolerance for a not fully saturated smaller run
        all_recs.append(recs)
    verdicts, st2 = evplane.judge(all_recs, len(all_recs))
    ctx.states += st1["distinct"] + st2["distinct"]; ctx.transitions += st1["generated"] + st2["generated"]
    ctx.tlc_jobs.append({"job": "Trace_Ev (descriptor peak, success under RLIMIT_NOFILE=1024)", "runs": len(res), "events": st2["events"], "wall_s": round(st1["wall"] + st2["wall"], 2)})
    # Layer-A binding (advisory): the number of destination handles open at once, replayed by TraceA_Life, stays within
    # XcpParblock!OpenBound (128 + W + 1) resp. XcpParfile's W
    life, lm = evplane.life_judge(all_recs)
    ctx.states += lm.distinct; ctx.transitions += lm.generated
    ctx.notes["handle_bound"] = [{"run": v["run"], "max_handles": v["maxLive"], "model_bound": v["bound"]} for v in life]
    for v in life:
        if v["drift"]:
            ctx.drift.append({"run": v["run"], "what": v["drift"][:3]})
    if any(v["drift"] for v in life):
        from ..common import log
        log("MODEL-DRIFT: %d traced runs exceed the handle bound of the control-plane models" % sum(1 for v in life if v["drift"]))
    table = []
    for (n, ci), r, v in zip(jobs, res, verdicts):
        drv, w, extra, inj = CONFIGS[ci]
        ctx.traces += 1
        ctx.case((n, ci), n >= 1000 and inj is not None)
        table.append({"files": n, "driver": drv, "workers": w, "extra": extra, "slowdown": inj, "peak_open": v["peak"], "exit": r[1], "missing": r[2], "wall_s": round(r[4], 1)})
        if "C20" in v["viol"]:
            ctx.violation("C20: %d files, %s workers=%d %s slowdown=%s: peak open descriptors %d (quarter-size tree: %s), exit=%d, missing=%d: %s" %
                          (n, drv, w, extra, inj, v["peak"], peaks.get(ci), r[1], r[2], r[3][-150:]),
                          {"kind": "c20", "files": n, "config": CONFIGS[ci], "verdict": v, "peak_base": peaks.get(ci)}, sig={"driver": drv, "workers": w})
    ctx.notes["peaks"] = table
    ctx.sample(table[0]); ctx.sample(table[-1])
    ctx.rule = ("trees of %d and %d files (empty, tiny and a few multi-block files in 20 directories), both drivers, workers {1,4,8,64}, with the "
                "workers slowed down relative to the dispatcher/walker (strace delay on copy_file_range / fsync), under RLIMIT_NOFILE=1024; TLC "
                "(Trace_Ev) requires exit 0 with every file identical, and the peak number of simultaneously open descriptors of the 4N run within "
                "8 + 25%% of the N run's (a per-file leak or an unbounded queue multiplies it). non-trivial = N >= 1000 with slowed workers; distinct by (size, configuration)" % sizes)

def replay(ctx, path):
    print(open(path).read()[:3000])
