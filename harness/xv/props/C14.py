"""C14: FIFOs, sockets and character devices are recreated as identical nodes; block devices fail."""
from .. import nsplane, nsprop
from ..common import rng

def run(ctx):
    rnd = rng("C14")
    scs = nsplane.family_special(rnd, ctx.tier)
    ctx.rule = ("fifo, socket, char devices with several (major, minor) incl. a large minor, sole source / inside a tree, fresh / existing "
                "destination (file, fifo, other device, link), --no-clobber, permission bits x umask {0, 022, 077}, block device alone and in a "
                "tree; both drivers; non-trivial = every scenario here (each has a special node); distinct by (scenario, driver)")
    nsprop.run(ctx, "C14", scs, nontrivial=lambda sc: True)

def replay(ctx, path):
    nsprop.replay(ctx, "C14", path)
