"""C14: FIFOs, sockets and character devices are recreated as identical nodes; block devices fail."""
from .. import nsplane, nsprop
from ..common import rng

def run(ctx):
    rnd = rng("C14")
    scs = nsplane.family_special(rnd, ctx.tier)
    rs = nsplane.family_special_random(rnd, 50 if ctx.tier == "quick" else 2000)
    for sc in rs[min(len(rs) // 2, 150):]:
        sc["nomodel"] = True
    scs += rs
    ctx.rule = ("fifo, socket, char devices with several (major, minor) incl. a large minor, sole source / inside a tree, fresh / existing "
                "destination (file, fifo, other device, link), --no-clobber, permission bits x umask {0, 022, 077}, block device alone and in a "
                "tree; both drivers; non-trivial = every scenario here (each has a special node); distinct by (scenario, driver)")
    nsprop.run(ctx, "C14", scs, nontrivial=lambda sc: True)
    # "never opened for reading": system-call traces of fresh copies and of re-copies over existing nodes (Trace_Ev, NoOpenSpecial)
    from .. import build, evplane, runner
    binary = build.xcp()
    traced = [s for s in scs if s["id"] in ("spec-tree-absent", "spec-tree-existing", "spec-recopy-samekind-0", "spec-recopy-sole-fifo-22", "spec-sole-p-fresh",
                                             "spec-sole-null-replace", "spec-sole-so-intodir")]
    traced += rs[:10] if ctx.tier == "quick" else rs[:300]
    tj = [(sc, d) for sc in traced for d in nsprop.DRIVERS]
    def one(j):
        sc, d = j
        special = ["/".join(e["p"]) for e in sc["fs0"] if e["k"] in ("fifo", "sock", "chr", "blk") and e["p"][0] != "d"]
        srcs = sorted({a["norm"][0] for a in sc["sources"]})
        return evplane.traced_tree_run(binary, sc, d, "c14t-%s-%s" % (sc["id"], d), {"fsync": False, "reflink": "auto"}, workers=2, special=special, src_prefixes=srcs)
    res = runner.pmap(one, tj)
    ev, st = evplane.judge([r[1] for r in res], len(res))
    ctx.states += st["distinct"]; ctx.transitions += st["generated"]
    for (sc, d), (o, recs, n), v in zip(tj, res, ev):
        ctx.traces += 1; ctx.case(("trace", sc["id"], d), True)
        if "C14" in v["viol"]:
            ctx.violation("C14: a special source file was opened during %s (%s)" % (sc["id"], d), {"kind": "c14-open", "scenario": sc["id"], "driver": d, "verdict": v},
                          sig={"scenario": sc["id"], "driver": d, "kind": "open"})
    ctx.notes["traced_runs_for_no_open"] = len(tj)

def replay(ctx, path):
    nsprop.replay(ctx, "C14", path)
