"""C16: invalid invocations are rejected with no side effects."""
from .. import nsplane, nsprop
from ..common import rng

def run(ctx):
    rnd = rng("C16")
    scs = nsplane.family_reject(rnd, ctx.tier)
    rr = nsplane.family_reject_random(rnd, 60 if ctx.tier == "quick" else 2500)
    for sc in rr[200:]:
        sc["nomodel"] = True          # Layer A explores the first 200; every one is run and judged by Trace_NS
    scs += rr
    ctx.rule = ("every rejection class (missing source, directory without -r, several sources onto a non-directory, directory onto a file, "
                "source == destination, source == mapped target, contradictory/unknown option values, malformed or empty glob) x position of "
                "the offending argument among valid ones x destination state (absent, empty dir, populated, file) x both drivers; the oracle "
                "compares the whole sandbox (content, kind, mode, mtime, inode) before/after; non-trivial = offending argument not first or "
                "destination pre-populated")
    def nt(sc):
        return True
    nsprop.run(ctx, "C16", scs, nontrivial=nt)

def replay(ctx, path):
    nsprop.replay(ctx, "C16", path)
