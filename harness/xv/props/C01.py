"""C01: exit 0 => every copied regular file is byte-identical to its source; nothing of a prior destination survives."""
from ..common import rmtree as _rmtree
import os, shutil, subprocess
from .. import build, dataplane, dataprop, runner, tlc
from ..common import rng, scratch, log, ToolError

def big_file_case(ctx, binary):
    """Thorough only: a request larger than one kernel copy call can move (2 GiB - 4 KiB), both drivers, --no-progress."""
    root = os.path.join(scratch(), "big")
    os.makedirs(root, exist_ok=True)
    src = os.path.join(root, "src")
    size = (2 << 30) + (1 << 20) + 1
    with open(src, "wb") as f:
        os.posix_fallocate(f.fileno(), 0, size)
        f.write(b"HEAD-MARK"); f.seek((2 << 30) - 4096 - 4); f.write(b"EDGE-MARK"); f.seek(size - 9); f.write(b"TAIL-MARK")
    for d in ("parfile", "parblock"):
        dst = os.path.join(root, "dst-" + d)
        r = runner.run_xcp(binary, ["--driver", d, "--no-progress", "src", "dst-" + d], cwd=root, timeout=600)
        ok = True
        if r.exit == 0:
            ok = os.path.getsize(dst) == size and subprocess.run(["cmp", "-s", src, dst]).returncode == 0
        ctx.traces += 1; ctx.case(("big", d), True)
        ctx.notes.setdefault("big_file", []).append({"driver": d, "exit": r.exit, "identical": ok, "wall_s": round(r.wall, 1)})
        if not ok:
            ctx.violation("C01: 2 GiB+ file differs after exit 0 (%s, --no-progress)" % d,
                          {"kind": "big-file", "driver": d, "size": size}, sig={"scenario": "big-file", "driver": d})
        try:
            os.unlink(dst)
        except OSError:
            pass
    _rmtree(root)

def run(ctx):
    binary = build.xcp()
    quick = ctx.tier == "quick"
    maxl = 5 if quick else 6
    # ---- Layer A: exhaustive over layouts x block sizes x drivers x reflink x kernel counts x job orders
    r = dataplane.model_check(maxl)
    ctx.tlc("XcpData MaxL=%d (all layouts, block sizes, short counts, job orders, prior destinations)" % maxl, r)
    if r.violated:
        ctx.model_violation("MC_Data", r)
    d = dataplane.model_check(3, deviations='{"BlockJobSingleShot", "NoTruncate"}', workers=4, invariants=["Exact"])
    ctx.tlc("XcpData with deviations (non-vacuity)", d)
    if d.violated != "Exact":
        raise ToolError("non-vacuity: XcpData with BlockJobSingleShot/NoTruncate does not violate Exact")
    ctx.notes["deviation_run_violates"] = d.violated
    # ---- unbounded part: block partition and retry loops as inductive invariants over ALL lengths / block sizes (Apalache)
    ap = subprocess.run([os.path.join(tlc.SPEC, "apalache", "apalache.sh"), "180"], stdout=subprocess.PIPE, stderr=subprocess.STDOUT, text=True, timeout=1500)
    lines = [l for l in ap.stdout.splitlines() if l.startswith("APALACHE ")]
    if len(lines) != 6:
        raise ToolError("apalache.sh produced %d result lines: %s" % (len(lines), ap.stdout[-500:]))
    ctx.notes["unbounded_inductive_checks"] = {"tool": "apalache-mc 0.58 (inductive invariant: Init => IndInv, IndInv /\\ Next => IndInv', IndInv => goal)",
                                               "obligations": len(lines), "discharged": len([l for l in lines if l.endswith(" OK")]), "lines": lines}
    for l in lines:
        if not l.endswith(" OK"):
            ctx.violation("Layer-A (unbounded) obligation failed: " + l, {"kind": "apalache", "line": l}, sig={"kind": "apalache", "line": l})
    # ---- spec -> impl: every initial state of the model is a scenario for the real binary
    scs, g = dataplane.generate(maxl)
    ctx.tlc("Gen_Data MaxL=%d" % maxl, g)
    scs = [s for s in scs if s["kcopy"] == "cfr" and s["reflink"] != "always"]
    rnd = rng("C01")
    if quick:
        scs = rnd.sample(scs, 1200)
    else:
        ctx.exhaustive = True
    jobs = []
    for i, sc in enumerate(scs):
        rr = rng("C01", sc["id"])
        jobs.append((sc, dict(run_id="m%d" % i, workers=rr.choice([1, 2, 4]), no_progress=rr.random() < 0.5,
                              cell=rr.choice([1, 4096]) if len(sc["salloc"]) == sc["len"] else 4096, life=(i % 4 == 0))))
    # sizes at block boundaries with byte-sized cells, bigger than the model's bound
    n = 0
    for drv in ("parfile", "parblock"):
        for bs in (1, 3, 8, 16, 4096):
            for k in (0, 1, 2, 5):
                for delta in (-1, 0, 1):
                    size = k * bs + delta
                    if size < 0 or size > 70000:
                        continue
                    for prior in (0, 1, 2):
                        if quick and rnd.random() < 0.5:
                            continue
                        n += 1
                        jobs.append((dataprop.dense("B%d-%s-bs%d-n%d-p%d" % (n, drv, bs, size, prior), size, bs, drv,
                                                    reflink=rnd.choice(["auto", "never"]), prior=prior),
                                     dict(run_id="b%d" % n, cell=1, workers=rnd.choice([1, 3, 8]), block_bytes=bs)))
    # holes with a tail that is not a multiple of the block size; block sizes straddling cell boundaries
    for drv in ("parfile", "parblock"):
        for cells in ([1, 0, 1], [0, 1, 0, 0, 1], [1, 1, 0, 0, 0, 1, 0], [0, 0, 0], [0, 0, 1]):
            for bb in (1000, 4096, 5000, 12288, 100000):
                for prior in (0, 2):
                    n += 1
                    jobs.append((dataprop.layout("H%d-%s-%s-bb%d-p%d" % (n, drv, "".join(map(str, cells)), bb, prior), cells, 1, drv, prior=prior),
                                 dict(run_id="h%d" % n, cell=4096, tail=123 if cells[-1] else 0, block_bytes=bb, workers=rnd.choice([1, 4]))))
    ctx.rule = ("scenarios = initial states of XcpData enumerated by TLC (length 0..%d cells x every data/hole layout x driver x block size "
                "1..L+1 (L+1 = larger than the file / --no-progress) x reflink {auto,never} x prior destination {absent, shorter, longer}), "
                "%s; plus byte-granular sizes k*block-1, k*block, k*block+1 and hole layouts with odd block sizes and tails; workers 1..8. "
                "non-trivial = at least 2 blocks, or a hole, or a prior destination, or size = 0,+-1 mod block; distinct by scenario id"
                % (maxl, "seeded sample of 1200" if quick else "all of them"))
    def nt(sc, kw, o):
        blocks = (sc["len"] + sc["bs"] - 1) // max(sc["bs"], 1) if sc["len"] else 0
        return blocks >= 2 or len(sc["salloc"]) < sc["len"] or sc["prior"] > 0
    dataprop.run_jobs(ctx, binary, jobs, {"EXACT": True}, nt)
    for sc, kw in jobs[:3]:
        ctx.sample({"scenario": {k: v for k, v in sc.items() if k != "maxl"}, "run": {k: v for k, v in kw.items()}})
    if not quick:
        big_file_case(ctx, binary)

def replay(ctx, path):
    dataprop.replay(ctx, {"EXACT": True}, path)
