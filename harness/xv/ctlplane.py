"""Control plane: exhaustive TLC runs of XcpParfile / XcpParblock (all interleavings x single faults) + non-vacuity."""
import os, re
from . import tlc
from .common import scratch, ToolError

def _cfg(base, name, repl):
    src = open(os.path.join(tlc.SPEC, base)).read()
    for a, b in repl.items():
        src = src.replace(a, b)
    p = os.path.join(scratch(), name)
    with open(p, "w") as f:
        f.write(src)
    return p

def layer_a(ctx, quick, invariants=None, nonvacuity=True, liveness=True):
    """Both drivers' designs: every interleaving of walker/dispatcher/workers/copy thread/main, with and without one fault."""
    out = {}
    for mod, cfg in (("MC_Parfile", "MC_Parfile.cfg"), ("MC_Parblock", "MC_Parblock.cfg")):
        repl = {}
        if not quick:
            repl["W = 2"] = "W = 3" if mod == "MC_Parfile" else "W = 2"
            if mod == "MC_Parblock":
                repl["Q = 1"] = "Q = 2"
        if not liveness:
            repl["PROPERTIES Termination ChannelCloses"] = ""
        p = _cfg(cfg, "%s-%s.cfg" % (mod, "q" if quick else "t"), repl)
        r = tlc.run(mod, p, workers=12, timeout=5000, xmx="12g")
        ctx.tlc("%s: all interleavings x {no fault, each single fault} (%s)" % (mod, ", ".join("%s->%s" % kv for kv in repl.items()) or "W=2" ), r)
        if r.violated:
            ctx.model_violation(mod, r)
        out[mod] = r
    if nonvacuity:
        for mod, cfg in (("MC_Parfile", "MC_Parfile.cfg"), ("MC_Parblock", "MC_Parblock.cfg")):
            dev = '{"FinSwallow", "LinkIgnored"}' if mod == "MC_Parfile" else '{"FinSwallow"}'
            p = _cfg(cfg, mod + "-dev.cfg", {"Deviations = {}": "Deviations = " + dev, "PROPERTIES Termination ChannelCloses": ""})
            r = tlc.run(mod, p, workers=8, timeout=2000)
            ctx.tlc("%s with deviations %s (non-vacuity)" % (mod, dev), r)
            if r.violated != "ExitZeroComplete":
                raise ToolError("non-vacuity: %s with %s violates %s, expected ExitZeroComplete" % (mod, dev, r.violated))
        ctx.notes["deviation_runs_violate"] = "ExitZeroComplete"
    return out
