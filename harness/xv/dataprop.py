"""Shared driver for data-plane properties (C01, C05, C11, C15)."""
import json
from . import build, dataplane, runner
from .common import rng, log, ToolError

def dense(id, n, bs, driver, reflink="auto", kcopy="cfr", prior=0):
    return {"id": id, "len": n, "salloc": list(range(1, n + 1)), "driver": driver, "bs": bs, "reflink": reflink, "kcopy": kcopy,
            "prior": prior, "maxl": 10 ** 9}

def layout(id, cells, bs, driver, reflink="auto", kcopy="cfr", prior=0):
    return {"id": id, "len": len(cells), "salloc": [i + 1 for i, c in enumerate(cells) if c], "driver": driver, "bs": bs,
            "reflink": reflink, "kcopy": kcopy, "prior": prior, "maxl": 10 ** 9}

def run_jobs(ctx, binary, jobs, clause_map, nontrivial):
    """jobs: list of (sc, kwargs).  clause_map: Trace_Data clause -> True if it decides this property."""
    def one(j):
        sc, kw = j
        return dataplane.run_one(binary, sc, **kw)
    import time as _t
    t0 = _t.time()
    obs = runner.pmap(one, jobs)
    t1 = _t.time()
    verdicts, st = dataplane.judge(obs)
    ctx.tlc_jobs.append({"job": "real runs (materialise, run, read back)", "runs": len(jobs), "wall_s": round(t1 - t0, 1)})
    ctx.states += st["distinct"]; ctx.transitions += st["generated"]
    ctx.tlc_jobs.append({"job": "Trace_Data verdicts", "records": len(obs), "wall_s": round(st["wall"], 2)})
    for (sc, kw), o, v in zip(jobs, obs, verdicts):
        ctx.traces += 1
        ctx.case(o["id"], nontrivial(sc, kw, o))
        if o["exit"] == -7:
            ctx.other.append({"clause": "C07", "id": o["id"], "note": "timed out"})
        for c in v["viol"]:
            rep = {"kind": "data-run", "scenario": sc, "kwargs": {k: x for k, x in kw.items() if k != "strace"}, "obs": dataplane.strip(o),
                   "argv": o["_run"]["argv"], "env": o["_run"]["env"], "stderr": o["_run"]["stderr"], "clause": c}
            if clause_map.get(c):
                ctx.violation("%s: %s violated by %s (exit=%d, argv=%s, env=%s)" % (ctx.pid, c, o["id"], o["exit"], " ".join(o["_run"]["argv"]),
                              o["_run"]["env"]), rep, sig={"scenario": sc["id"], "driver": sc["driver"], "clause": c})
            else:
                ctx.other.append({"clause": c, "id": o["id"]})
    fidelity_pass(ctx, obs)
    return obs, verdicts

def fidelity_pass(ctx, obs):
    """Layer-A trace validation of the runs that were traced (life=True): advisory, reported as model drift."""
    import copy
    from .common import log
    traced = [o for o in obs if o.get("_life") is not None]
    if not traced:
        return
    acc, rej, r = dataplane.fidelity(traced)
    ctx.states += r.distinct; ctx.transitions += r.generated
    ctx.tlc_jobs.append({"job": "TraceA_Data: strace logs replayed as XcpData actions", "runs": len(traced), "accepted": len(acc), "rejected": len(rej),
                         "wall_s": round(r.wall, 2)})
    ctx.notes["model_fidelity"] = {"traces_replayed_against_XcpData": len(traced), "accepted": len(acc), "rejected": sorted(rej)[:10]}
    for i in sorted(rej)[:10]:
        ctx.drift.append({"id": i, "what": "XcpData cannot explain the system-call trace of this run (Layer-A drift)"})
    if rej:
        log("MODEL-DRIFT: %d of %d traced runs are not behaviours of XcpData" % (len(rej), len(traced)))
    # the binding is demonstrated, not assumed: a corrupted copy of an accepted trace must be rejected
    good = [o for o in traced if o["id"] in acc and len([e for e in o["_life"] if e["e"] == "copy"]) >= 2]
    if good:
        bad = []
        for k, o in enumerate(good[:3]):
            b = {"id": "corrupt-%d" % k, "_lifesc": o["_lifesc"], "_life": copy.deepcopy(o["_life"])}
            cps = [e for e in b["_life"] if e["e"] == "copy"]
            if k == 0:
                cps[-1]["off"] = cps[-1]["off"] + 1 if cps[-1]["off"] >= 0 else -1; cps[-1]["ret"] = max(0, cps[-1]["ret"] - 1) if cps[-1]["off"] < 0 else cps[-1]["ret"]
            elif k == 1:
                b["_life"] = [e for e in b["_life"] if e["e"] != "alloc"]
            else:
                b["_life"].remove(cps[0])
            bad.append(b)
        a2, r2, rr = dataplane.fidelity(bad)
        ctx.states += rr.distinct; ctx.transitions += rr.generated
        ctx.notes["model_fidelity"]["corrupted_traces_rejected"] = "%d of %d" % (len(r2), len(bad))
        if a2:
            raise ToolError("binding self-test failed: corrupted traces accepted by TraceA_Data: %s" % sorted(a2))

def replay(ctx, clause_map, path):
    rep = json.load(open(path))["replay"]
    if rep.get("kind") != "data-run":
        raise ToolError("not a data-plane replay file")
    binary = build.xcp()
    kw = dict(rep["kwargs"]); kw["run_id"] = "replay"
    o = dataplane.run_one(binary, rep["scenario"], **kw)
    v, _ = dataplane.judge([o])
    ctx.traces += 1; ctx.case("replay", True)
    print(json.dumps({"exit": o["exit"], "verdict": v[0], "stderr": o["_run"]["stderr"]}, indent=1))
    for c in v[0]["viol"]:
        if clause_map.get(c):
            ctx.violation("%s violated on replay" % c, rep, sig={"scenario": rep["scenario"]["id"]})
