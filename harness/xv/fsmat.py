"""Materialise abstract trees on disk and project disk state back (the abstraction function alpha).

Abstract tree = list of entries {p: [name ids], k: kind, c: content id | link text (list) , ...optional metadata}.
Kinds: dir file link fifo sock chr blk.  Paths are relative to a sandbox root.
"""
import errno, hashlib, os, socket, stat, struct
from .common import sha

# ---------------------------------------------------------------- names
class Names:
    """Bijection between abstract name ids and concrete file-name bytes."""
    PLAIN = {}
    def __init__(self, table=None):
        self.fwd = {k: (v if isinstance(v, bytes) else v.encode()) for k, v in (table or {}).items()}
        self.rev = {v: k for k, v in self.fwd.items()}
        assert len(self.rev) == len(self.fwd), "name table must be injective"
    def conc(self, a):
        if a in self.fwd:
            return self.fwd[a]
        return a.encode() if isinstance(a, str) else a
    def abs(self, b):
        if b in self.rev:
            return self.rev[b]
        try:
            s = b.decode()
        except UnicodeDecodeError:
            return "?" + b.hex()
        # a concrete name that is the image of nothing but equals an unmapped abstract id
        return s if s.encode() not in self.rev and s not in self.fwd else "?" + b.hex()
    def path(self, root, p):
        out = root if isinstance(root, bytes) else root.encode()
        for a in p:
            out = os.path.join(out, self.conc(a))
        return out

TRICKY = [b"with space", "ünï☃".encode(), b"nonutf8-\xff\xfe", b"-dash", b"semi;colon", b"new\nline", b"quote'\"", b"star*", b"trail.", b"~tilde~"]

def tricky_names(ids, rnd):
    """Map each abstract id to a distinct awkward concrete name (keeps the id as a prefix so names stay distinct)."""
    t = {}
    for i in ids:
        suffix = rnd.choice(TRICKY)
        t[i] = i.encode() + b"-" + suffix
    return Names(t)

# ---------------------------------------------------------------- contents
def content_bytes(cid):
    """Deterministic content for a content id: E = empty, F<n>/G<n>... = pseudo-random, length depends on id."""
    if cid in ("E", ""):
        return b""
    h = hashlib.sha256(cid.encode()).digest()
    n = 1 + h[0] + 256 * (h[1] % 12)          # 1 .. ~3k bytes
    out = bytearray()
    ctr = 0
    while len(out) < n:
        out += hashlib.sha256(cid.encode() + struct.pack("<I", ctr)).digest()
        ctr += 1
    return bytes(out[:n])

class Contents:
    def __init__(self):
        self.by_sha = {}
    def get(self, cid):
        b = content_bytes(cid)
        self.by_sha[sha(b)] = cid
        return b
    def register(self, cid, data):
        self.by_sha[sha(data)] = cid
    def ident(self, data):
        s = sha(data)
        if s in self.by_sha:
            return self.by_sha[s]
        if len(data) == 0:
            return "E"
        if not any(data):
            return "Z%d" % len(data)
        return "?" + s

# ---------------------------------------------------------------- materialise
def link_text(names, root, text):
    """Abstract link text (list of components; first may be '/ABS' = sandbox root) -> bytes."""
    if isinstance(text, str):
        text = [text]
    parts = []
    absolute = False
    for i, c in enumerate(text):
        if i == 0 and c == "/ABS":
            absolute = True
            continue
        parts.append(c.encode() if c in ("..", ".") else names.conc(c))
    rel = b"/".join(parts)
    if absolute:
        r = root if isinstance(root, bytes) else root.encode()
        return os.path.join(r, rel) if rel else r
    return rel

def abs_link_text(names, root, raw):
    r = root if isinstance(root, bytes) else root.encode()
    out = []
    if raw == r or raw.startswith(r + b"/"):
        out.append("/ABS")
        if raw == r:
            return out
        raw = raw[len(r) + 1:]
    elif raw.startswith(b"/"):
        return ["?" + raw.hex()]
    for c in raw.split(b"/"):
        if c == b"":                      # "x/", "x//y": the text is compared byte for byte, empty components included
            out.append("")
            continue
        out.append(c.decode() if c in (b"..", b".") else names.abs(c))
    return out

def materialise(root, entries, names=None, contents=None):
    """Create the entries under root (parents first). Returns the Contents table."""
    names = names or Names()
    contents = contents or Contents()
    root = root if isinstance(root, bytes) else root.encode()
    os.makedirs(root, exist_ok=True)
    order = sorted(entries, key=lambda e: (len(e["p"]), e["p"]))
    later = []
    for e in order:
        path = names.path(root, e["p"])
        k = e["k"]
        if k == "dir":
            os.makedirs(path, exist_ok=True)
        elif k == "file":
            if e.get("hl"):
                later.append(e); continue
            if "sparse" in e:
                write_cells(path, e["sparse"], 4096, tail=e.get("sparse_tail", 0), fid=5)
                with open(path, "rb") as f:
                    contents.register(e.get("c", "SPARSE"), f.read())
                continue
            data = e["data"] if "data" in e else contents.get(e.get("c", "E"))
            if "data" in e and "c" in e:
                contents.register(e["c"], data)
            with open(path, "wb") as f:
                f.write(data)
        elif k == "link":
            os.symlink(link_text(names, root, e.get("c", [])), path)
        elif k == "fifo":
            os.mkfifo(path, e.get("m", 0o644))
        elif k == "sock":
            s = socket.socket(socket.AF_UNIX)
            tmpname = ("/var/tmp/.xv-sock-%d-%d" % (os.getpid(), id(s))).encode()
            try:
                s.bind(tmpname)          # sun_path is short; then move the node where it belongs
            finally:
                s.close()
            os.rename(tmpname, path)
        elif k in ("chr", "blk"):
            maj, mi = e.get("r", [1, 3])
            os.mknod(path, (stat.S_IFCHR if k == "chr" else stat.S_IFBLK) | e.get("m", 0o644), os.makedev(maj, mi))
        else:
            raise ValueError("kind " + k)
    for e in later:
        os.link(names.path(root, e["hl"]), names.path(root, e["p"]))
    # metadata, children before parents so directory mtimes stick
    for e in sorted(entries, key=lambda e: -len(e["p"])):
        path = names.path(root, e["p"])
        if e["k"] == "link":
            if "t" in e:
                os.utime(path, ns=(int(e["t"]), int(e["t"])), follow_symlinks=False)
            continue
        for k, v in (e.get("x") or {}).items():
            os.setxattr(path, k.encode(), v.encode() if isinstance(v, str) else v)
        if "u" in e or "g" in e:
            os.chown(path, e.get("u", -1), e.get("g", -1))
        if "m" in e and e["k"] not in ("chr", "blk"):
            os.chmod(path, e["m"])
        elif "m" in e:
            os.chmod(path, e["m"])
        if "t" in e:
            os.utime(path, ns=(int(e.get("ta", e["t"])), int(e["t"])))
    return contents

# ---------------------------------------------------------------- snapshot (alpha)
KINDS = {stat.S_IFDIR: "dir", stat.S_IFREG: "file", stat.S_IFLNK: "link", stat.S_IFIFO: "fifo",
         stat.S_IFSOCK: "sock", stat.S_IFCHR: "chr", stat.S_IFBLK: "blk"}

def _xattrs(path):
    try:
        ks = sorted(os.listxattr(path, follow_symlinks=False))
    except OSError:
        return ""
    out = []
    for k in ks:
        try:
            out.append("%s=%s" % (k, os.getxattr(path, k, follow_symlinks=False).hex()))
        except OSError:
            out.append("%s=?" % k)
    return ";".join(out)

def entry_of(path, rel, names, contents, root):
    st = os.lstat(path)
    k = KINDS.get(stat.S_IFMT(st.st_mode), "other")
    e = {"p": rel, "k": k, "c": "", "m": stat.S_IMODE(st.st_mode), "t": str(st.st_mtime_ns),
         "u": st.st_uid, "g": st.st_gid, "x": "", "r": "", "i": "%d:%d" % (st.st_dev, st.st_ino), "b": st.st_blocks,
         "l": str(st.st_size)}
    if k == "file":
        with open(path, "rb") as f:
            e["c"] = contents.ident(f.read())
        e["x"] = _xattrs(path)
    elif k == "link":
        e["c"] = "/".join(abs_link_text(names, root, os.readlink(path)))
    elif k in ("chr", "blk"):
        e["r"] = "%d:%d" % (os.major(st.st_rdev), os.minor(st.st_rdev))
    elif k == "dir":
        e["x"] = _xattrs(path)
    return e

def snapshot(root, names=None, contents=None):
    """All entries below root (root itself excluded), sorted by path; never follows links."""
    names = names or Names()
    contents = contents or Contents()
    root = root if isinstance(root, bytes) else root.encode()
    out = []
    MAXDEPTH = 40          # deeper than any scenario; a runaway copy is reported as one marker entry, not followed
    stack = [(root, [])]
    while stack:
        d, rel = stack.pop()
        try:
            ents = sorted(os.listdir(d))
        except OSError:
            continue
        for n in ents:
            p = os.path.join(d, n)
            r = rel + [names.abs(n)]
            try:
                e = entry_of(p, r, names, contents, root)
            except (OSError, ValueError):
                continue
            out.append(e)
            if e["k"] == "dir":
                if len(r) >= MAXDEPTH:
                    out.append(dict(e, p=r + ["?too-deep"], c="?"))
                else:
                    stack.append((p, r))
    out.sort(key=lambda e: e["p"])
    return out

# ---------------------------------------------------------------- cells (data plane)
def write_cells(path, cells, cellsize, tail=0, fid=1):
    """cells: list of ints; 0 = hole (left unwritten), n>0 = data cell filled with a byte unique to (fid, index),
    -1 = explicit zero bytes written (allocated zeros). tail = extra data bytes after the last cell."""
    with open(path, "wb") as f:
        total = len(cells) * cellsize + tail
        f.truncate(total)
        i, n = 0, len(cells)
        while i < n:                      # one write per run of consecutive non-hole cells
            if cells[i] == 0:
                i += 1; continue
            j = i
            buf = bytearray()
            while j < n and cells[j] != 0:
                buf += (b"\0" if cells[j] < 0 else bytes([cell_byte(fid, j)])) * cellsize
                j += 1
            f.seek(i * cellsize); f.write(buf)
            i = j
        if tail:
            f.seek(len(cells) * cellsize)
            f.write(bytes([cell_byte(fid, len(cells))]) * tail)
        f.flush()
        os.fsync(f.fileno())

def cell_byte(fid, i):
    return 1 + (fid * 37 + i * 11) % 255

def read_cells(path, cellsize, fid=1):
    """-> (length, cells, tail length, tail class): each cell 0 (all zero), i+1 if it holds exactly the byte pattern of cell i of
    file fid, -(j+1) when it holds the pattern of another cell j, 999 when mixed, 998 when uniform but foreign."""
    with open(path, "rb") as f:
        data = f.read()
    n = len(data)
    full = n // cellsize
    if cellsize == 1:
        cells = []
        for i in range(full):
            b = data[i]
            cells.append(0 if b == 0 else (i + 1 if b == 1 + (fid * 37 + i * 11) % 255 else _foreign(b, fid, full + 1)))
    else:
        zero = bytes(cellsize)
        pats = {}
        cells = []
        for i in range(full):
            chunk = data[i * cellsize:(i + 1) * cellsize]
            if chunk == zero:
                cells.append(0); continue
            cb = 1 + (fid * 37 + i * 11) % 255
            pat = pats.get(cb)
            if pat is None:
                pat = pats[cb] = bytes([cb]) * cellsize
            cells.append(i + 1 if chunk == pat else _classify(chunk, fid, i, full + 1))
    tailb = data[full * cellsize:]
    tail = len(tailb)
    tailc = _classify(tailb, fid, full, full + 1) if tail else 0
    return n, cells, tail, tailc

def _foreign(b, fid, ncells):
    for j in range(min(ncells + 2, 300)):
        if b == cell_byte(fid, j):
            return -(j + 1)
    return 998

def _classify(b, fid, i, ncells):
    if not any(b):
        return 0
    first = b[0]
    if b.count(first) != len(b):
        return 999
    if first == cell_byte(fid, i):
        return i + 1
    return _foreign(first, fid, ncells)

def data_map(path):
    """SEEK_DATA/SEEK_HOLE map: list of [start, end) data segments."""
    out = []
    with open(path, "rb") as f:
        size = os.fstat(f.fileno()).st_size
        pos = 0
        while pos < size:
            try:
                d = os.lseek(f.fileno(), pos, os.SEEK_DATA)
            except OSError as e:
                if e.errno == errno.ENXIO:
                    break
                raise
            h = os.lseek(f.fileno(), d, os.SEEK_HOLE)
            out.append([d, h])
            pos = h
    return out
