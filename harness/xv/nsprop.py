"""Shared driver for the name-space-plane properties."""
import json, os
from . import build, nsplane, fsmat, runner
from .common import rng, log, ToolError

DRIVERS = ("parfile", "parblock")

def nontrivial_default(sc):
    return len(sc["fs0"]) >= 4

def run(ctx, clause, scenarios, nontrivial=nontrivial_default, names_for=None, workers_for=None, model=True,
        model_limit=None, extra_runs=None):
    binary = build.xcp()
    ids = [s["id"] for s in scenarios]
    assert len(set(ids)) == len(ids), "scenario ids must be unique"
    # ---- Layer A: exhaustive exploration of the design on exactly these scenarios
    if model:
        ms = [s for s in scenarios if not s.get("nomodel")]
        ms = ms if model_limit is None else ms[:model_limit]
        r = nsplane.model_check(ms, workers=8)
        ctx.tlc("XcpNS over %d scenarios (all walk orders x all operation orders)" % len(ms), r)
        if r.violated:
            ctx.model_violation("MC_NS", r)
        ctx.notes["model_predictions"] = len([1 for t, _ in r.printed if t == "PREDICT"])
    # ---- spec -> impl: run every scenario on the real binary, both drivers
    jobs = []
    for i, sc in enumerate(scenarios):
        for d in DRIVERS:
            nm = names_for(sc, d) if names_for else None
            w = workers_for(sc, d) if workers_for else None
            for rep in range(sc.get("repeat", 1)):
                ww = w if rep == 0 else [1, 2, 4, 8, 16][rep % 5]
                jobs.append((sc, d, "%s-%d-%s%s" % (ctx.pid, i, d, "-r%d" % rep if rep else ""), nm, ww))
    def one(j):
        sc, d, rid, nm, w = j
        if sc.get("perturb"):
            # schedule perturbation from outside: strace holds a thread at the chosen system calls
            k = int(rid.rsplit("-r", 1)[1]) if "-r" in rid and rid.rsplit("-r", 1)[1].isdigit() else 0
            inj = sc["perturb"][k % len(sc["perturb"])]
            o = nsplane.run_one(binary, sc, d, rid, names=nm, workers=w, strace={"trace": "mkdir,mknodat,symlink", "inject": [inj]} if inj else None)
            if o["_run"].get("trace"):
                try:
                    os.unlink(o["_run"]["trace"])
                except OSError:
                    pass
            return o
        return nsplane.run_one(binary, sc, d, rid, names=nm, workers=w)
    obs = runner.pmap(one, jobs)
    if extra_runs:
        obs += extra_runs(binary)
    verdicts, st = nsplane.judge(obs)
    ctx.states += st["distinct"]; ctx.transitions += st["generated"]
    ctx.tlc_jobs.append({"job": "Trace_NS verdicts", "records": len(obs), "wall_s": round(st["wall"], 2)})
    by_id = {s["id"]: s for s in scenarios}
    for o, v in zip(obs, verdicts):
        ctx.traces += 1
        sc = by_id.get(o["sc"]["id"])
        ctx.case((o["sc"]["id"], o["driver"], o["run"]), nontrivial(sc) if sc else True)
        if (o["exit"] == 0) != v["expectOk"] and o["exit"] >= 0 and "point" not in o["_run"] and "File name too long" in o["_run"]["stderr"] and v["expectOk"]:
            # a directory copied into its own subtree: the real walk descends into what it has just created until ENAMETOOLONG;
            # the model's walk is over the initial tree (named abstraction, DESIGN 7)
            ctx.notes["self_nesting_runs (model walk is over the initial tree)"] = ctx.notes.get("self_nesting_runs (model walk is over the initial tree)", 0) + 1
        elif (o["exit"] == 0) != v["expectOk"] and o["exit"] >= 0 and "point" not in o["_run"]:
            ctx.drift.append({"id": v["id"], "driver": v["driver"], "exit": o["exit"], "model_expect_ok": v["expectOk"],
                              "stderr": o["_run"]["stderr"][-200:]})
        for c in v["viol"]:
            rep = {"kind": "ns-run", "scenario": sc or o["sc"], "driver": o["driver"], "argv": o["_run"]["argv"], "exit": o["exit"],
                   "stderr": o["_run"]["stderr"], "before": o["before"], "after": o["after"], "clause": c}
            if c == clause:
                ctx.violation("%s violated by scenario %s (%s): exit=%d" % (c, v["id"], o["driver"], o["exit"]), rep,
                              sig={"scenario": v["id"], "driver": o["driver"], "cls": o["_run"]["cls"]})
            else:
                ctx.other.append({"clause": c, "id": v["id"], "driver": o["driver"]})
    for sc in scenarios[:3]:
        ctx.sample({"id": sc["id"], "argv": nsplane.cli(sc, "parfile", fsmat.Names(), "/SANDBOX") and
                    [a.decode(errors="replace") for a in nsplane.cli(sc, "parfile", fsmat.Names(), "/SANDBOX")],
                    "fs0": [("/".join(e["p"]), e["k"], e["c"]) for e in sc["fs0"]][:12]})
    if ctx.drift:
        log("MODEL-DRIFT: %d runs whose exit status differs from the Layer-A prediction (see evidence)" % len(ctx.drift))
    return obs, verdicts

def nonvacuity(ctx, scenarios, expect_inv):
    """The model must be able to express the defects it is meant to exclude: with the named deviations switched on,
    TLC has to find a violation on these scenarios."""
    r = nsplane.model_check(scenarios, workers=4, cfg="MC_NS_dev.cfg")
    ctx.tlc("XcpNS with Deviations on (non-vacuity)", r)
    ctx.notes["deviation_run_violates"] = r.violated or "nothing"
    if not r.violated:
        raise ToolError("non-vacuity check failed: the model with deviations enabled violates nothing on %d scenarios" % len(scenarios))

def replay(ctx, clause, path):
    rep = json.load(open(path))["replay"]
    if rep.get("kind") != "ns-run":
        raise ToolError("replay file is not a name-space run")
    binary = build.xcp()
    sc = rep["scenario"]
    o = nsplane.run_one(binary, sc, rep["driver"], "replay")
    verdicts, _ = nsplane.judge([o])
    ctx.traces += 1; ctx.case(("replay",), True)
    print(json.dumps({"exit": o["exit"], "verdict": verdicts[0], "stderr": o["_run"]["stderr"]}, indent=1))
    if clause in verdicts[0]["viol"]:
        ctx.violation("%s violated on replay" % clause, rep, sig={"scenario": sc["id"], "driver": rep["driver"]})
