"""Run the xcp binary (optionally under strace) and collect exit status, signal, wall time, stderr, trace path."""
import concurrent.futures as cf, os, resource, signal, subprocess, time
from .common import NCPU, log

TRACE_SET = ("openat,open,creat,openat2,close,copy_file_range,sendfile,splice,write,pwrite64,pwritev,writev,ftruncate,truncate,"
             "fallocate,ioctl,read,pread64,lseek,fchmod,fchmodat,chmod,utimensat,fchown,fchownat,lchown,chown,"
             "fsetxattr,setxattr,lsetxattr,fsync,fdatasync,sync_file_range,mkdir,mkdirat,symlink,symlinkat,mknod,mknodat,rename,renameat,"
             "renameat2,unlink,unlinkat,rmdir,link,linkat,getdents64,dup,dup2,dup3,fcntl")

_timeouts = [0]      # runs that hit their time limit in this process: a hanging build under test must not cost hours

class Run:
    __slots__ = ("args", "exit", "sig", "wall", "stderr", "trace", "timed_out", "cwd")

def run_xcp(binary, args, cwd, env=None, strace=None, timeout=60, nofile=None, umask=None, stdin=None):
    """strace: None or dict(out=path, inject=[...], trace=set-string, extra=[...]).
    args are bytes or str.  Returns Run.  exit is None when killed by a signal (sig set)."""
    r = Run()
    r.args = args; r.cwd = cwd; r.trace = None
    cmd = [binary] + list(args)
    if strace is not None:
        out = strace["out"]
        tset = strace.get("trace", TRACE_SET)
        have = set(tset.split(","))
        for inj in strace.get("inject", []):          # strace only injects into calls it traces
            for name in inj.split(":")[0].split(","):
                if name and name not in have:
                    tset += "," + name; have.add(name)
        sc = ["strace", "-f", "-y", "-s", str(strace.get("strsize", 256)), "-o", out,
              "-e", "trace=" + tset, "-e", "signal=none"]
        for inj in strace.get("inject", []):
            sc += ["-e", "inject=" + inj]
        sc += strace.get("extra", [])
        cmd = sc + cmd
        r.trace = out
    e = dict(os.environ)
    e.pop("RUST_LOG", None)
    e["RUST_BACKTRACE"] = "0"
    e["NO_COLOR"] = "1"
    if env:
        e.update(env)
    def pre():
        os.setsid()
        if nofile is not None:
            resource.setrlimit(resource.RLIMIT_NOFILE, (nofile, nofile))
        if umask is not None:
            os.umask(umask)
    if _timeouts[0] >= 6:
        timeout = min(timeout, 12)        # fault-free runs take well under a second; keep observing, but quickly
    t0 = time.time()
    p = subprocess.Popen(cmd, cwd=cwd, env=e, stdin=subprocess.DEVNULL, stdout=subprocess.DEVNULL,
                         stderr=subprocess.PIPE, preexec_fn=pre)
    r.timed_out = False
    try:
        _, err = p.communicate(timeout=timeout)
    except subprocess.TimeoutExpired:
        r.timed_out = True
        _timeouts[0] += 1
        try:
            os.killpg(p.pid, signal.SIGKILL)
        except ProcessLookupError:
            pass
        _, err = p.communicate()
    r.wall = time.time() - t0
    r.stderr = err.decode(errors="replace")[-3000:]
    rc = p.returncode
    if rc is not None and rc < 0:
        r.exit, r.sig = None, -rc
    else:
        r.exit, r.sig = rc, 0
    if strace is not None and r.trace and os.path.exists(r.trace):
        # strace -f returns the tracee's status; when the tracee was killed by an injected signal strace kills itself likewise
        pass
    return r

def pmap(fn, items, workers=None):
    """Parallel map preserving order (threads; each task is a subprocess so the GIL does not matter)."""
    workers = workers or max(2, NCPU - 2)
    with cf.ThreadPoolExecutor(max_workers=workers) as ex:
        return list(ex.map(fn, items))
