"""strace -f -y log -> observable events (Appendix A of DESIGN.md).  Entry and exit of a call are separate events."""
import re

LINE = re.compile(r'^(\d+)\s+(.*)$')
UNF = re.compile(r'^(\w+)\((.*) <unfinished \.\.\.>$')
RES = re.compile(r'^<\.\.\. (\w+) resumed>(.*)$')
FULL = re.compile(r'^(\w+)\((.*)\)\s+= (-?\d+|\?|0x[0-9a-f]+)(?:<((?:[^<>\\]|\\.)*)>)?(?: (E\w+) \(([^)]*)\))?((?: \((?:INJECTED|DELAYED)\))*)\s*$')
EXIT = re.compile(r'^\+\+\+ (exited with (\d+)|killed by (\w+)(?: \(core dumped\))?) \+\+\+$')
FD = re.compile(r'^(-?\d+)(?:<(.*)>)?$', re.S)

WRITE_CLASS = {'copy_file_range', 'write', 'pwrite64', 'pwritev', 'writev', 'ftruncate', 'fallocate', 'sendfile', 'splice'}
META_CLASS = {'fchmod', 'futimens', 'fchown', 'fsetxattr'}
SYNC_CLASS = {'fsync', 'fdatasync'}

def split_args(s):
    out, cur, depth, inq, esc = [], '', 0, False, False
    for ch in s:
        if inq:
            cur += ch
            if esc: esc = False
            elif ch == '\\': esc = True
            elif ch == '"': inq = False
            continue
        if ch == '"': inq = True; cur += ch
        elif ch in '([{': depth += 1; cur += ch
        elif ch in ')]}': depth -= 1; cur += ch
        elif ch == '<': depth += 1; cur += ch
        elif ch == '>': depth -= 1; cur += ch
        elif ch == ',' and depth == 0: out.append(cur.strip()); cur = ''
        else: cur += ch
    if cur.strip(): out.append(cur.strip())
    return out

def unquote(a):
    """strace C-string -> bytes-ish str (latin-1 per byte)"""
    a = a.strip()
    if a.endswith('...'): a = a[:-3]
    if len(a) >= 2 and a[0] == '"' and a[-1] == '"':
        body = a[1:-1]
        out, i = [], 0
        while i < len(body):
            c = body[i]
            if c == '\\' and i + 1 < len(body):
                n = body[i + 1]
                if n in '01234567':
                    j = i + 1; o = ''
                    while j < len(body) and len(o) < 3 and body[j] in '01234567':
                        o += body[j]; j += 1
                    out.append(chr(int(o, 8))); i = j; continue
                if n == 'x':
                    out.append(chr(int(body[i + 2:i + 4], 16))); i += 4; continue
                out.append({'n': '\n', 't': '\t', 'r': '\r', 'v': '\v', 'f': '\f'}.get(n, n)); i += 2; continue
            out.append(c); i += 1
        return ''.join(out)
    return a

def fdpath(a):
    m = FD.match(a.strip())
    if not m:
        return None, None
    p = m.group(2)
    if p is not None:
        p = unquote('"' + p + '"')
    return int(m.group(1)), p

def parse(path):
    """Yield raw syscall records in log order: dict(seq_call, seq_ret, tid, sys, args[list], ret, retpath, errno, inj) and exits."""
    pending = {}
    recs = []
    with open(path, errors='surrogateescape') as f:
        for n, raw in enumerate(f, 1):
            m = LINE.match(raw.rstrip('\n'))
            if not m:
                continue
            tid, rest = int(m.group(1)), m.group(2)
            e = EXIT.match(rest)
            if e:
                recs.append(dict(kind='exit', seq=n, tid=tid, code=int(e.group(2)) if e.group(2) else None, sig=e.group(3)))
                continue
            if rest.startswith('---') or rest.startswith('+++'):
                continue
            u = UNF.match(rest)
            if u:
                pending[tid] = (n, u.group(1), u.group(2))
                continue
            r = RES.match(rest)
            if r:
                if tid not in pending:
                    continue
                cn, sysname, prefix = pending.pop(tid)
                full = '%s(%s%s' % (sysname, prefix, r.group(2))
                callseq, retseq = cn, n
            else:
                full, callseq, retseq = rest, n, n
            fm = FULL.match(full)
            if not fm:
                continue
            ret = fm.group(3)
            recs.append(dict(kind='sys', seq_call=callseq, seq_ret=retseq, tid=tid, sys=fm.group(1),
                             args=split_args(fm.group(2)), ret=None if ret == '?' else int(ret, 0),
                             retpath=fm.group(4), errno=fm.group(5) or "", inj="INJECTED" in (fm.group(7) or "")))
    # calls that never returned (process killed): keep as call-only
    for tid, (cn, sysname, prefix) in pending.items():
        recs.append(dict(kind='sys', seq_call=cn, seq_ret=None, tid=tid, sys=sysname, args=split_args(prefix),
                         ret=None, retpath=None, errno="", inj=False))
    return recs

def events(path, classify):
    """Translate to call/ret events.  classify(pathstr) -> region tag ("SRC","DST","OTHER") or None to drop.
    Each event: dict(seq, ph, tid, ev, kind, path, region, off, req, ret, errno, inj, flags...).  All fields present
    (absent ints = -99, absent strings = "")."""
    recs = parse(path)
    evs = []
    emul = {}       # tid -> inside emulated clone
    def base(r, ev, kind, p, **kw):
        d = dict(tid=r['tid'], ev=ev, kind=kind, path=p or "", region=(classify(p) if p else "") or "",
                 off=-99, req=-99, ret=-99 if r['ret'] is None else r['ret'], errno=r['errno'], inj=r['inj'],
                 acc="", trunc=False, creat=False, src="", srcregion="", text="", emul=False)
        d.update(kw)
        return d
    for r in recs:
        if r['kind'] == 'exit':
            evs.append(dict(seq=r['seq'], ph='exit', tid=r['tid'], ev='exit', kind='', path='', region='', off=-99, req=-99,
                            ret=-99 if r['code'] is None else r['code'], errno=r['sig'] or "", inj=False, acc="", trunc=False,
                            creat=False, src="", srcregion="", text="", emul=False))
            continue
        s, a = r['sys'], r['args']
        d = None
        try:
            if s in ('openat', 'open', 'creat', 'openat2'):
                if s == 'openat':
                    flags = a[2] if len(a) > 2 else ''
                    dirfd, dpath = fdpath(a[0]) if not a[0].startswith('AT_FDCWD') else (None, None)
                    p = r['retpath'] and unquote('"' + r['retpath'] + '"') or _join(a[0], unquote(a[1]))
                elif s == 'open':
                    flags = a[1]; p = r['retpath'] and unquote('"' + r['retpath'] + '"') or unquote(a[0])
                elif s == 'creat':
                    flags = 'O_WRONLY|O_CREAT|O_TRUNC'; p = r['retpath'] and unquote('"' + r['retpath'] + '"') or unquote(a[0])
                else:
                    flags = a[2]; p = r['retpath'] and unquote('"' + r['retpath'] + '"') or _join(a[0], unquote(a[1]))
                acc = 'rw' if 'O_RDWR' in flags else ('w' if 'O_WRONLY' in flags else 'r')
                d = base(r, 'open', s, p, acc=acc, trunc='O_TRUNC' in flags, creat='O_CREAT' in flags,
                         text='dir' if 'O_DIRECTORY' in flags else '')
            elif s == 'close':
                fd, p = fdpath(a[0]); d = base(r, 'close', s, p, req=fd if fd is not None else -99)
            elif s == 'copy_file_range':
                fi, pi = fdpath(a[0]); fo, po = fdpath(a[2])
                off = a[3].strip('[]')
                d = base(r, 'data', 'cfr', po, off=-99 if off == 'NULL' else _i32(off), req=_i32(a[4]), src=pi or "",
                         srcregion=(classify(pi) if pi else "") or "")
            elif s in ('write', 'pwrite64', 'writev', 'pwritev'):
                fd, p = fdpath(a[0])
                if fd == -1 and 'XCPVERIF:clone-emul-begin' in a[1]:
                    emul[r['tid']] = True; continue
                if fd == -1 and 'XCPVERIF:clone-emul-end' in a[1]:
                    emul[r['tid']] = False
                    d = base(r, 'clone', 'emulated', "", ret=0)
                    # attach to the last data path written by this thread during emulation
                    d['path'] = emul.pop(('path', r['tid']), "")
                    d['region'] = classify(d['path']) or "" if d['path'] else ""
                    d['errno'] = ""
                elif p is None:
                    continue
                else:
                    off = _i32(a[3]) if s == 'pwrite64' and len(a) > 3 else -99
                    d = base(r, 'data', s, p, off=off, req=_i32(a[2]) if len(a) > 2 else -99)
            elif s in ('ftruncate', 'fallocate'):
                fd, p = fdpath(a[0]); d = base(r, 'data', s, p, req=_i32(a[1]) if s == 'ftruncate' else _i32(a[3]))
            elif s == 'truncate':
                d = base(r, 'data', s, unquote(a[0]), req=_i32(a[1]))
            elif s in ('sendfile', 'splice'):
                fo, po = fdpath(a[0] if s == 'sendfile' else a[2]); d = base(r, 'data', s, po)
            elif s in ('read', 'pread64'):
                fd, p = fdpath(a[0])
                if p is None: continue
                d = base(r, 'read', s, p, req=_i32(a[2]) if len(a) > 2 else -99, off=_i32(a[3]) if s == 'pread64' and len(a) > 3 else -99)
            elif s == 'lseek':
                fd, p = fdpath(a[0]); d = base(r, 'seek', a[2] if len(a) > 2 else '', p, off=_i32(a[1]))
            elif s == 'ioctl':
                fd, p = fdpath(a[0])
                if 'FICLONE' in a[1]:
                    fi, pi = fdpath(a[2]) if len(a) > 2 else (None, None)
                    d = base(r, 'clone', 'FICLONERANGE' if 'RANGE' in a[1] else 'FICLONE', p, src=pi or "",
                             srcregion=(classify(pi) if pi else "") or "")
                elif 'FIEMAP' in a[1]:
                    d = base(r, 'fiemap', 'FIEMAP', p)
                else:
                    continue
            elif s in META_CLASS:
                fd, p = fdpath(a[0]); d = base(r, 'meta', s, p)
            elif s == 'utimensat':
                fd, p = fdpath(a[0])
                if len(a) > 1 and a[1] != 'NULL':
                    p = _join(a[0], unquote(a[1]))
                d = base(r, 'meta', s, p)
            elif s in ('chmod', 'fchmodat', 'chown', 'lchown', 'fchownat', 'setxattr', 'lsetxattr'):
                p = unquote(a[0]) if s in ('chmod', 'chown', 'lchown', 'setxattr', 'lsetxattr') else _join(a[0], unquote(a[1]))
                d = base(r, 'meta', s, p)
            elif s in SYNC_CLASS or s == 'sync_file_range':
                fd, p = fdpath(a[0]); d = base(r, 'sync', s, p)
            elif s in ('mkdir', 'mkdirat'):
                p = unquote(a[0]) if s == 'mkdir' else _join(a[0], unquote(a[1])); d = base(r, 'mkdir', s, p)
            elif s in ('symlink', 'symlinkat'):
                p = unquote(a[1]) if s == 'symlink' else _join(a[1], unquote(a[2])); d = base(r, 'symlink', s, p, text=unquote(a[0]))
            elif s in ('mknod', 'mknodat'):
                p = unquote(a[0]) if s == 'mknod' else _join(a[0], unquote(a[1]))
                d = base(r, 'mknod', s, p, text=",".join(a[1:] if s == 'mknod' else a[2:]))
            elif s in ('rename', 'renameat', 'renameat2'):
                if s == 'rename':
                    o, n = unquote(a[0]), unquote(a[1])
                else:
                    o, n = _join(a[0], unquote(a[1])), _join(a[2], unquote(a[3]))
                d = base(r, 'rename', s, n, src=o, srcregion=classify(o) or "")
            elif s in ('unlink', 'unlinkat', 'rmdir'):
                p = unquote(a[0]) if s != 'unlinkat' else _join(a[0], unquote(a[1])); d = base(r, 'unlink', s, p)
            elif s in ('link', 'linkat'):
                if s == 'link': o, n = unquote(a[0]), unquote(a[1])
                else: o, n = _join(a[0], unquote(a[1])), _join(a[2], unquote(a[3]))
                d = base(r, 'hardlink', s, n, src=o, srcregion=classify(o) or "")
            elif s == 'getdents64':
                fd, p = fdpath(a[0]); d = base(r, 'readdir', s, p)
            else:
                continue
        except (IndexError, ValueError):
            continue
        if d is None:
            continue
        if emul.get(r['tid']) and d['ev'] in ('data', 'read'):
            if d['ev'] == 'data' and d['path']:
                emul[('path', r['tid'])] = d['path']
            continue        # the emulation's own I/O is not the program's
        if d['path'] and d['region'] == "" and d['ev'] not in ('clone',):
            # not classified: outside the sandbox (libs, /proc, tty) -> drop
            if classify(d['path']) is None:
                continue
        evs.append(dict(d, seq=r['seq_call'], ph='call'))
        if r['seq_ret'] is not None:
            evs.append(dict(d, seq=r['seq_ret'], ph='ret'))
    evs.sort(key=lambda e: (e['seq'], 0 if e['ph'] == 'call' else 1))
    for i, e in enumerate(evs):
        e['seq'] = i + 1
    return evs

def _i32(s):
    try:
        v = int(s.strip().split()[0], 0)
    except (ValueError, IndexError):
        return -99
    return v if -2**31 < v < 2**31 else 2**31 - 1

def _join(dirarg, p):
    if p.startswith('/'):
        return p
    fd, dp = fdpath(dirarg) if not dirarg.startswith('AT_FDCWD') else (None, None)
    if dirarg.startswith('AT_FDCWD'):
        m = re.match(r'AT_FDCWD<(.*)>', dirarg)
        dp = unquote('"' + m.group(1) + '"') if m else None
    if dp:
        return dp.rstrip('/') + '/' + p
    return p
