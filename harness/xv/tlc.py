"""Thin wrapper around TLC: exhaustive checks, scenario generation (PrintT lines), trace monitors (verdict lines)."""
from .common import rmtree as _rmtree
import json, os, re, shutil, subprocess, tempfile, time
from .common import SPEC, ToolError, log, scratch

JAR = "/opt/veriftools/tla/tla2tools.jar:/opt/veriftools/tla/CommunityModules-deps.jar"

class TlcResult:
    def __init__(self):
        self.ok = False            # completed with no error
        self.violated = None       # name of violated invariant/property, or "deadlock"
        self.generated = 0
        self.distinct = 0
        self.depth = 0
        self.printed = []          # parsed PrintT tuples (python lists)
        self.out = ""
        self.wall = 0.0
        self.coverage = {}         # action -> (distinct, taken)
        self.cmd = ""
        self.error_trace = ""

_TUPLE = re.compile(r'^<<"([A-Z]+)", (.*)>>$')

def _unescape_tla_string(s):
    # TLC prints strings with \" and \\ escapes
    out, i = [], 0
    while i < len(s):
        c = s[i]
        if c == "\\" and i + 1 < len(s):
            n = s[i + 1]
            out.append({"n": "\n", "t": "\t"}.get(n, n)); i += 2
        else:
            out.append(c); i += 1
    return "".join(out)

def parse_printed(line):
    """<<"TAG", "json...">>  ->  (TAG, obj)   (second component is a TLA+ string holding JSON)"""
    m = _TUPLE.match(line.strip())
    if not m:
        return None
    tag, rest = m.group(1), m.group(2)
    if rest.startswith('"') and rest.endswith('"'):
        body = _unescape_tla_string(rest[1:-1])
        try:
            return tag, json.loads(body)
        except ValueError:
            return tag, body
    return tag, rest

def run(module, cfg=None, workers=8, simulate=None, depth=None, env=None, timeout=900,
        dfs=False, xmx="6g", coverage=False, deadlock=None, extra=None, want_tags=None):
    """Run TLC on SPEC/<module>.tla with SPEC/<cfg>.  Returns TlcResult."""
    r = TlcResult()
    meta = tempfile.mkdtemp(prefix="tlc-", dir=scratch())
    jopts = ["-XX:+UseParallelGC", "-Xmx" + xmx, "-Xss1g", "-Djava.io.tmpdir=" + meta]      # SANY unpacks the standard modules into java.io.tmpdir
    if dfs:
        jopts.append("-Dtlc2.tool.queue.IStateQueue=StateDeque")
    cmd = ["java"] + jopts + ["-cp", JAR, "tlc2.TLC", "-metadir", meta, "-cleanup", "-noGenerateSpecTE",
           "-workers", str(workers)]
    if cfg:
        cmd += ["-config", cfg]
    if simulate:
        cmd += ["-simulate", simulate]
    if depth:
        cmd += ["-depth", str(depth)]
    if coverage:
        cmd += ["-coverage", "1"]
    if deadlock is False:
        cmd += ["-deadlock"]
    if extra:
        cmd += extra
    cmd += [module + ".tla"]
    e = dict(os.environ)
    e.pop("JAVA_TOOL_OPTIONS", None)
    if env:
        e.update({k: str(v) for k, v in env.items()})
    r.cmd = " ".join(cmd)
    t0 = time.time()
    try:
        p = subprocess.run(cmd, cwd=SPEC, env=e, stdout=subprocess.PIPE, stderr=subprocess.STDOUT,
                           text=True, errors="replace", timeout=timeout)
    except subprocess.TimeoutExpired as ex:
        _rmtree(meta)
        raise ToolError("TLC timed out after %ss: %s" % (timeout, r.cmd))
    r.wall = time.time() - t0
    _rmtree(meta)
    out = p.stdout
    r.out = out
    for line in out.splitlines():
        if line.startswith("<<"):
            t = parse_printed(line)
            if t and (want_tags is None or t[0] in want_tags):
                r.printed.append(t)
    m = None
    for m in re.finditer(r"(\d+) states generated, (\d+) distinct states found", out):
        pass
    if m:
        r.generated, r.distinct = int(m.group(1)), int(m.group(2))
    m = re.search(r"The depth of the complete state graph search is (\d+)", out)
    if m:
        r.depth = int(m.group(1))
    if simulate:
        m = re.search(r"(\d+) states checked", out)
        if m and not r.generated:
            r.generated = r.distinct = int(m.group(1))
    for m in re.finditer(r"^<(\w+) line \d+, col \d+ to line \d+, col \d+ of module (\w+)>: (\d+):(\d+)", out, re.M):
        r.coverage[m.group(1)] = (int(m.group(3)), int(m.group(4)))
    m = re.search(r"Invariant (\w+) is violated", out)
    if m:
        r.violated = m.group(1)
    m2 = re.search(r"Temporal properties were violated|Action property (\w+) is violated", out)
    if m2 and not r.violated:
        r.violated = m2.group(1) or "temporal"
    if "Deadlock reached" in out and not r.violated:
        r.violated = "deadlock"
    if r.violated:
        i = out.find("Error:")
        r.error_trace = out[i:i + 6000]
    r.ok = (("Model checking completed. No error has been found" in out) or
            (simulate is not None and p.returncode == 0 and "Error:" not in out)) and not r.violated
    if not r.ok and not r.violated:
        # parse / semantic / evaluation error: tooling problem
        i = out.find("*** Errors")
        if i < 0:
            i = out.find("Error:")
        j = out.rfind("Error:")
        tail = out[max(0, j - 300):j + 2500] if j >= 0 else out[-2500:]
        raise ToolError("TLC failed (%s):\n%s\n...\n%s" % (r.cmd, out[max(0, i - 100):i + 1200] if i >= 0 else "", tail))
    return r

def write_ndjson(path, records):
    with open(path, "w") as f:
        for rec in records:
            f.write(json.dumps(rec, separators=(",", ":")) + "\n")

def monitor(module, cfg, records, timeout=900, tag="VERDICT", xmx="4g"):
    """Feed NDJSON records to a trace spec (reads IOEnv.TRACE); return list of parsed verdict objects."""
    path = tempfile.mktemp(prefix="trace-", suffix=".ndjson", dir=scratch())
    write_ndjson(path, records)
    r = run(module, cfg, workers=1, env={"TRACE": path}, timeout=timeout, dfs=True, xmx=xmx, deadlock=False,
            want_tags={tag, "UNMATCHED"})
    os.unlink(path)
    return r
