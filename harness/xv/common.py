"""Shared paths, seed/tier handling, scratch directories, small utilities."""
import atexit, fcntl, hashlib, json, os, random, shutil, subprocess, sys, time

VERIF = os.path.dirname(os.path.dirname(os.path.dirname(os.path.abspath(__file__))))
REPO = os.environ.get("XCP_REPO", "/repo")
SPEC = os.path.join(VERIF, "spec")
BUILD = os.environ.get("XCP_VERIF_BUILD", os.path.join(VERIF, "build"))
EVID = os.environ.get("XCP_VERIF_EVID", os.path.join(VERIF, "evidence"))
SCRATCH_BASE = os.environ.get("XCP_VERIF_SCRATCH", "/var/tmp")
NCPU = os.cpu_count() or 4

def seed():
    try:
        return int(os.environ.get("VERIF_SEED", "1"))
    except ValueError:
        return 1

_scratch = None
def scratch():
    """Per-process scratch directory on the real (ext4) filesystem; removed at exit."""
    global _scratch
    if _scratch is None:
        _scratch = os.path.join(SCRATCH_BASE, "xcp-verif.%d" % os.getpid())
        rmtree(_scratch)
        os.makedirs(_scratch)
        atexit.register(lambda: rmtree(_scratch))
    return _scratch

def rmtree(path):
    """Remove a tree of any depth (a misbehaving copy can nest thousands of levels: rm(1) copes, shutil's recursion does not)."""
    if isinstance(path, bytes):
        path = os.fsdecode(path)
    if os.path.lexists(path):
        subprocess.run(["rm", "-rf", "--", path], stdout=subprocess.DEVNULL, stderr=subprocess.DEVNULL)

def log(*a):
    print(*a, file=sys.stderr, flush=True)

class ToolError(Exception):
    """The tooling itself failed (exit status 2); never a verdict on xcp."""

def sha(b):
    return hashlib.sha256(b).hexdigest()[:16]

def rng(*salt):
    return random.Random("%d/%s" % (seed(), "/".join(str(s) for s in salt)))
