"""Option-combination sweep: one rich tree copied under seeded random combinations of ALL options; every applicable Layer-B
clause is evaluated by TLC on each run (tree: Trace_NS, metadata: Trace_Meta, system-call order / fsync / reflink: Trace_Ev).
Each property's check calls run() with the clause names it owns; violations of other clauses are listed as observations."""
import os, time
from . import evplane, nsplane, runner, tlc
from .nsplane import E, SC
from .common import rng, ToolError

def base_tree(prior):
    fs = [E("s", "dir", m=0o751)]
    def f(path, size, mode, mtime, x=None, u=0, g=0):
        e = E(path, "file", "CB-%s-%d" % (path, size), m=mode, t=mtime, x=x or {}, u=u, g=g)
        e["meta"]["data"] = bytes((i * 7 + len(path)) % 251 + 1 for i in range(size)); fs.append(e)
    f("s/big", 6000, 0o640, "1300000000123456789", {"user.tag": "v1"}, 1000, 1000)
    f("s/empty", 0, 0o600, "1300000001000000001")
    f("s/suid", 300, 0o4755, "1300000002999999999", None, 65534, 7)
    f("s/.hidden", 17, 0o444, "4000000000000000007")
    fs.append(E("s/sub", "dir", m=0o700))
    f("s/sub/inner", 2500, 0o664, "1300000003500000000", {"user.a": "1", "user.b": ""})
    fs.append(E("s/sub/deep", "dir"))
    f("s/sub/deep/leaf", 1, 0o601, "1")
    sp = E("s/sparse", "file", "CB-sparse", m=0o644, t="1300000005666666666"); sp["meta"]["sparse"] = [1, 0, 0, 1, 0]; fs.append(sp)
    fs.append(E("s/link", "link", "big"))
    fs.append(E("s/sub/uplink", "link", "../empty"))
    fs.append(E("s/pipe", "fifo", m=0o640))
    fs.append(E("by", "file", "F6"))
    if prior:
        fs += [E("d", "dir"), E("d/keep", "file", "F7")]
        if prior == "older":
            fs += [E("d/s", "dir")]
            o = E("d/s/big", "file", "OLD1", m=0o600, t="1111111111000000000"); o["meta"]["data"] = b"x" * 9000; fs.append(o)
            o = E("d/s/sub", "dir"); fs.append(o)
            o = E("d/s/sub/inner", "file", "OLD2", m=0o4711); o["meta"]["data"] = b"old"; fs.append(o)
            o = E("d/s/sub/inner.~4~", "file", "OLD3"); o["meta"]["data"] = b"older"; fs.append(o)
    return fs

def random_config(rr, k=None):
    """k = index of the configuration: the first 32 enumerate every subset of {fsync, no-perms, no-timestamps, ownership} x driver,
    the remaining dimensions are drawn at random."""
    prior = rr.choice([None, None, "empty", "older"])
    c = {"driver": rr.choice(["parfile", "parblock"]), "workers": rr.choice([0, 1, 2, 4, 8]), "block": rr.choice([100, 1000, 4096, 1 << 20]),
         "verbose": rr.choice(["", "", "-v", "-vv"]),
         "noprogress": rr.random() < 0.2, "reflink": rr.choice(["auto", "never"]), "fsync": rr.random() < 0.5, "noperms": rr.random() < 0.3,
         "notimes": rr.random() < 0.3, "ownership": rr.random() < 0.4, "T": rr.random() < 0.25, "L": rr.random() < 0.2, "prior": prior,
         "tdir": False, "backup": rr.choice(["none", "none", "numbered", "auto"]),
         "spelling": rr.choice(["s", "./s", "s/"]), "umask": rr.choice([0o022, 0o077, 0])}
    if prior and rr.random() < 0.3 and not c["T"]:
        c["tdir"] = True
    if k is not None and k < 32:
        c["driver"] = ["parfile", "parblock"][k & 1]
        c["fsync"], c["noperms"], c["notimes"], c["ownership"] = bool(k >> 1 & 1), bool(k >> 2 & 1), bool(k >> 3 & 1), bool(k >> 4 & 1)
    return c

def scenario(c, i):
    fs = base_tree(c["prior"])
    if c["L"]:
        fs = [e for e in fs if not (e["k"] == "link" and e["p"][-1] == "nonexistent")]
    extra = ["--block-size", str(c["block"]), "--reflink", c["reflink"], "--backup", c["backup"]]
    if c.get("verbose"):
        extra.append(c["verbose"])
    for flag, opt in (("noprogress", "--no-progress"), ("fsync", "--fsync"), ("noperms", "--no-perms"), ("notimes", "--no-timestamps"), ("ownership", "--ownership")):
        if c[flag]:
            extra.append(opt)
    sc = SC("combo-%d" % i, fs, [c["spelling"]], "d", T=c["T"], L=c["L"], tdir=c["tdir"], extra=extra, cls="combo")
    sc["umask"] = c["umask"]
    return sc

def meta_records(o, sc, c, t0, t1):
    before = {tuple(e["p"]): e for e in o["before"]}; after = {tuple(e["p"]): e for e in o["after"]}
    base = ("d",) if (c["T"] or not c["prior"]) else ("d", "s")
    recs = []
    def md(e):
        mo, mt, u, g, x, ino = e["md"].split("|"); return int(mo, 8), mt, int(u), int(g), x
    for path, e in before.items():
        if e["k"] != "file" or path[0] != "s":
            continue
        dpath = base + path[1:]
        d = after.get(dpath); p = before.get(dpath)
        if d is None or d["k"] != "file":
            continue
        sm, smt, su, sg, sx = md(e); dm, dmt, du, dg, dx = md(d)
        # a numbered backup renames the old file away: the destination is then a NEW file (default mode), not the previous one
        backed_up = any(len(q) == len(dpath) and q[:-1] == dpath[:-1] and q[-1].startswith(dpath[-1] + ".~") and q not in before for q in after)
        if backed_up:
            p = None
        rel = max(-2 ** 30, min(2 ** 30, (int(dmt) - t0) // 1000000))
        recs.append({"id": "%s:%s" % (sc["id"], "/".join(path)), "exit": o["exit"], "noperms": c["noperms"], "notimes": c["notimes"], "ownership": c["ownership"],
                     "smode": sm, "dmode": dm, "pmode": md(p)[0] if p is not None and p["k"] == "file" else -1, "umask": c["umask"], "smtime": smt, "dmtime": dmt,
                     "dmtimeRelMs": rel, "runMs": (t1 - t0) // 1000000 + 1, "suid": su, "sgid": sg, "duid": du, "dgid": dg, "sx": sx, "dx": dx})
    return recs

def run(ctx, binary, owned, n, salt):
    """owned: set of clause names (C02, C03, C06, C10, C13, C14, C15, C18) that count as violations for this property."""
    rnd = rng("combo", salt)
    cfgs = [random_config(rnd, k) for k in range(n)]
    jobs = [(i, c, scenario(c, i)) for i, c in enumerate(cfgs)]
    def one(j):
        i, c, sc = j
        t0 = time.time_ns()
        o, recs, nev = evplane.traced_tree_run(binary, sc, c["driver"], "combo-%s-%d" % (salt, i), {"fsync": c["fsync"], "reflink": c["reflink"]}, workers=c["workers"],
                                               special=["s/pipe"])
        t1 = time.time_ns()
        return o, recs, meta_records(o, sc, c, t0, t1)
    res = runner.pmap(one, jobs)
    nsv, st1 = nsplane.judge([r[0] for r in res])
    evv, st2 = evplane.judge([r[1] for r in res], len(res))
    mrecs = [m for r in res for m in r[2]]
    mv = []
    if mrecs:
        mm = tlc.monitor("Trace_Meta", "Trace_Meta.cfg", mrecs)
        mv = [v for t, v in mm.printed if t == "VERDICT"]
        ctx.states += mm.distinct; ctx.transitions += mm.generated
    ctx.states += st1["distinct"] + st2["distinct"]; ctx.transitions += st1["generated"] + st2["generated"]
    ctx.tlc_jobs.append({"job": "option-combination sweep (Trace_NS + Trace_Ev + Trace_Meta)", "runs": len(res), "files_judged": len(mrecs)})
    bad_meta = {}
    for rec, v in zip(mrecs, mv):
        if v["viol"]:
            bad_meta.setdefault(rec["id"].split(":")[0], []).append((rec["id"], v["viol"], rec))
    for (i, c, sc), (o, recs, mr), nv, ev in zip(jobs, res, nsv, evv):
        ctx.traces += 1
        ctx.case(("combo", salt, i), True)
        found = set(nv["viol"]) | set(ev["viol"]) | ({"C10"} if sc["id"] in bad_meta else set())
        if (o["exit"] == 0) != nv["expectOk"] and o["exit"] >= 0:
            ctx.drift.append({"id": sc["id"], "config": c, "exit": o["exit"], "model_expect_ok": nv["expectOk"], "stderr": o["_run"]["stderr"][-200:]})
        for cl in sorted(found):
            detail = {"kind": "combo", "config": c, "argv": o["_run"]["argv"], "exit": o["exit"], "ns": nv, "ev": ev, "meta": [(a, b) for a, b, _ in bad_meta.get(sc["id"], [])][:5],
                      "stderr": o["_run"]["stderr"][-300:]}
            if cl in owned:
                ctx.violation("%s: option combination %s: clause %s violated (exit=%d; %s)" % (ctx.pid, " ".join(o["_run"]["argv"]), cl, o["exit"],
                              bad_meta.get(sc["id"], [("", "", "")])[0][:2] if cl == "C10" else (ev["unsynced"][:3] if cl == "C18" else "")), detail,
                              sig={"combo": True, "clause": cl, "driver": c["driver"]})
            else:
                ctx.other.append({"clause": cl, "id": sc["id"], "argv": " ".join(o["_run"]["argv"])})
    ctx.notes["option_combinations_run"] = ctx.notes.get("option_combinations_run", 0) + len(res)
    ctx.sample({"option_combination": cfgs[0], "argv": res[0][0]["_run"]["argv"]})
