SPECIFICATION Spec
CONSTANTS
  Order <- CodeOrder
  Bits = {"suid", "sgid", "sticky", "rwx"}
INVARIANTS ModePreserved OwnerPreserved TimePreserved NoPermsKeeps Synced
CHECK_DEADLOCK FALSE
