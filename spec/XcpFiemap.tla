------------------------------ MODULE XcpFiemap ------------------------------
(***************************************************************************)
(* libfs::map_extents (libfs/src/linux.rs): the extent map is fetched in   *)
(* pages of P extents (32 in the code).  Kernel contract of FS_IOC_FIEMAP: *)
(* a request with fm_start = s returns, in order, the first P extents that *)
(* END after s (an extent straddling s is returned whole, with its own     *)
(* start), and flags the file's last extent with LAST.                     *)
(* The loop: request; append what came; stop on an empty answer or on      *)
(* LAST; otherwise continue at the end of the last extent received.        *)
(* Claim (C19): for every extent list the result is exactly that list -    *)
(* nothing dropped at a page boundary, nothing reported twice, no boundary *)
(* moved - including lists whose extents touch.                            *)
(***************************************************************************)
EXTENDS Integers, Sequences, FiniteSets, TLC

CONSTANTS N,      \* offsets 0..N
          P,      \* page size
          MaxE    \* at most MaxE extents in a file

Ext == { <<s, e>> \in (0..N) \X (0..N) : s < e }

VARIABLES file,    \* the kernel's extent list: sorted, non-overlapping (touching allowed)
          start,   \* fm_start of the next request
          acc,     \* extents collected so far
          pc
vars == <<file, start, acc, pc>>

RECURSIVE Lists(_, _)
\* all sorted non-overlapping lists with at most k extents starting at or after `from`
Lists(from, k) == IF k = 0 THEN {<<>>}
                  ELSE {<<>>} \cup UNION { { <<x>> \o rest : rest \in Lists(x[2], k - 1) } : x \in { y \in Ext : y[1] >= from } }

Init == /\ file \in Lists(0, MaxE) /\ start = 0 /\ acc = <<>> /\ pc = "request"

\* the kernel's answer to a request at `s`: indices of the first P extents ending after s
Answer(s) == LET idx == { i \in 1..Len(file) : file[i][2] > s }
                 first == IF idx = {} THEN 0 ELSE CHOOSE i \in idx : \A j \in idx : i <= j
             IN IF first = 0 THEN <<>> ELSE SubSeq(file, first, IF first + P - 1 < Len(file) THEN first + P - 1 ELSE Len(file))

Request ==
  /\ pc = "request"
  /\ LET a == Answer(start) IN
     IF a = <<>> THEN pc' = "done" /\ UNCHANGED <<acc, start>>
     ELSE /\ acc' = acc \o a
          /\ IF a[Len(a)] = file[Len(file)]                 \* FIEMAP_EXTENT_LAST on the last one received
               THEN pc' = "done" /\ UNCHANGED start
               ELSE pc' = "request" /\ start' = a[Len(a)][2]     \* fm_start = last.fe_logical + last.fe_length
  /\ UNCHANGED file
Done == pc = "done" /\ UNCHANGED vars
Spec == Init /\ [][Request \/ Done]_vars /\ WF_vars(Request)

Complete == pc = "done" => acc = file
Progress == pc = "request" => Len(acc) <= Len(file)
Termination == <>(pc = "done")
=============================================================================
