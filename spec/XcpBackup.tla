------------------------------ MODULE XcpBackup ------------------------------
(***************************************************************************)
(* Layer A: histories of copies onto one directory as a state machine in   *)
(* which the rename, the creation and the write of one overwrite are       *)
(* separate steps - every reachable state is a possible kill point.        *)
(***************************************************************************)
EXTENDS XcpBackupOps, Json

CONSTANTS Names,        \* names that are copied (sequences): e.g. <<"a">>, <<"ab">>, <<"a", 1>>
          Seeds,        \* set of initial listings
          MaxSteps,
          Deviations    \* "Utf8Only": backups of non-UTF-8 names are not recognised (pinned tree; fix 9b97c67)
                        \* "PrefixMatch": any sibling starting with the name and ending in .~N~ counts (pinned tree; fix 9b97c67)
                        \* "LexMax": the next number is taken from the lexicographically last backup
Modes == {"none", "auto", "numbered"}

VARIABLES dir, step, pc, cur, hist, lost, seed
\* cur = [name, mode, v, before]: the overwrite in progress;  hist = sequence of completed steps (for replay)
\* lost = versions that a backing-up mode was obliged to keep
vars == <<dir, step, pc, cur, hist, lost, seed>>
NoCur == [name |-> <<>>, mode |-> "none", v |-> "", before |-> <<>>]

Init == /\ dir \in Seeds /\ seed = dir /\ step = 0 /\ pc = "idle" /\ cur = NoCur /\ hist = <<>> /\ lost = {}

Start == /\ pc = "idle" /\ step < MaxSteps
         /\ \E n \in Names, m \in Modes :
              /\ cur' = [name |-> n, mode |-> m, v |-> "V" \o ToString(step + 1), before |-> dir]
              /\ pc' = "rename"
              \* a copy aimed AT a backup file is the user's own replacement of that entry: it is no longer owed to anyone
              /\ lost' = { p \in lost : ~(n \in DOMAIN dir /\ IsBackupOf(p[1], n) /\ dir[n] = p[2]) }
         /\ UNCHANGED <<dir, step, hist, seed>>
DoRename == /\ pc = "rename"
            /\ dir' = IF "LexMax" \in Deviations /\ NeedsBackup(dir, cur.name, cur.mode) /\ BackupNums(dir, cur.name) # {}
                        THEN LET ns == BackupNums(dir, cur.name)
                                 \* "newest" chosen by comparing decimal strings: 9 sorts after 10; modelled by the leading digit
                                 lead(x) == IF x >= 10 THEN x \div 10 ELSE x
                                 lexmax == CHOOSE x \in ns : \A y \in ns : lead(x) >= lead(y)
                             IN With(Without(dir, cur.name), Append(cur.name, lexmax + 1), dir[cur.name])
                        ELSE Rename(dir, cur.name, cur.mode)
            /\ lost' = IF NeedsBackup(dir, cur.name, cur.mode) THEN lost \cup {<<cur.name, dir[cur.name]>>} ELSE lost
            /\ pc' = "create" /\ UNCHANGED <<step, cur, hist, seed>>
DoCreate == /\ pc = "create" /\ dir' = Create(dir, cur.name) /\ pc' = "write" /\ UNCHANGED <<step, cur, hist, lost, seed>>
DoWrite  == /\ pc = "write" /\ dir' = Write(dir, cur.name, cur.v)
            /\ hist' = Append(hist, [name |-> cur.name, mode |-> cur.mode, v |-> cur.v])
            /\ step' = step + 1 /\ pc' = "idle" /\ cur' = NoCur /\ UNCHANGED <<lost, seed>>
Next == Start \/ DoRename \/ DoCreate \/ DoWrite
Spec == Init /\ [][Next]_vars

\* C09: every version a backing-up mode had to keep is still there, under a backup name of its file
NoVersionLost == \A p \in lost : \E c \in DOMAIN dir : IsBackupOf(p[1], c) /\ dir[c] = p[2]
\* at every instant of an overwrite (= every kill point) the old content is under the original or a backup name
KillSafe == (pc # "idle" /\ cur.mode # "none" /\ NeedsBackup(cur.before, cur.name, cur.mode)) => OldSurvives(cur.before, dir, cur.name)
\* no existing backup ever changes
BackupsImmutable == [][BackupsKept(dir, dir', IF pc = "idle" THEN <<>> ELSE cur.name)]_vars
=============================================================================
