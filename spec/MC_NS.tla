------------------------------- MODULE MC_NS --------------------------------
(* Bounded instance of XcpNS: the scenarios are read from the NDJSON file named by the environment variable SCEN. *)
EXTENDS XcpNS, Json, IOUtils
ScenSeq == ndJsonDeserialize(IOEnv.SCEN)
MCScenarios == { ScenSeq[i] : i \in 1..Len(ScenSeq) }
\* one line per scenario: what the specification predicts (used for fidelity reporting only)
EmitPrediction ==
  st = "start" => PrintT(<<"PREDICT", ToJson([id |-> sc.id, ok |-> refr.ok, rejected |-> Rejected(sc),
                                              nvisits |-> Cardinality(vis)])>>)
=============================================================================
