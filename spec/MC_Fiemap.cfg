SPECIFICATION Spec
CONSTANTS
  N = 7
  P = 2
  MaxE = 5
INVARIANTS Complete Progress
PROPERTY Termination
CHECK_DEADLOCK TRUE
