SPECIFICATION Spec
CONSTANTS
  Order <- PinnedOrder
  Bits = {"suid", "sgid", "sticky", "rwx"}
INVARIANTS ModePreserved OwnerPreserved TimePreserved NoPermsKeeps Synced
CHECK_DEADLOCK FALSE
