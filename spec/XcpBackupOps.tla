---------------------------- MODULE XcpBackupOps -----------------------------
(***************************************************************************)
(* Numbered backups (libxcp/src/backup.rs, CopyHandle::new).               *)
(* One directory; an entry name is a sequence <<base, n1, n2, ...>> that   *)
(* stands for "base.~n1~.~n2~...": <<"a">> is the file a, <<"a", 3>> is    *)
(* a.~3~ - which is at once "backup 3 of a" and a file name in its own     *)
(* right whose backups are <<"a", 3, N>>.  A listing is a function from a  *)
(* set of names to content versions.                                       *)
(***************************************************************************)
EXTENDS Integers, Sequences, FiniteSets, TLC

IsBackupOf(name, cand) == Len(cand) = Len(name) + 1 /\ SubSeq(cand, 1, Len(name)) = name      \* is_num_backup
BackupNums(dir, name) == { cand[Len(cand)] : cand \in { c \in DOMAIN dir : IsBackupOf(name, c) } }
HasBackup(dir, name)  == BackupNums(dir, name) # {}                                          \* has_backup
Max(S) == CHOOSE x \in S : \A y \in S : y <= x
NextNum(dir, name)    == IF BackupNums(dir, name) = {} THEN 1 ELSE Max(BackupNums(dir, name)) + 1   \* next_backup_num
NeedsBackup(dir, name, mode) ==                                                              \* needs_backup
  /\ name \in DOMAIN dir
  /\ mode = "numbered" \/ (mode = "auto" /\ HasBackup(dir, name))

Without(dir, name) == [x \in DOMAIN dir \ {name} |-> dir[x]]
With(dir, name, v) == [x \in DOMAIN dir \cup {name} |-> IF x = name THEN v ELSE dir[x]]

\* the three file-system effects of one copy, in order
Rename(dir, name, mode) == IF NeedsBackup(dir, name, mode)
                             THEN With(Without(dir, name), Append(name, NextNum(dir, name)), dir[name]) ELSE dir
Create(dir, name) == With(dir, name, "empty")         \* File::create: the name exists, truncated
Write(dir, name, v) == With(dir, name, v)
CopyStep(dir, name, mode, v) == Write(Create(Rename(dir, name, mode), name), name, v)

(***************************************************************************)
(* Contract (Layer B) for one overwrite: before = listing before the step, *)
(* after = listing observed afterwards (possibly after a kill).            *)
(***************************************************************************)
\* no existing backup (of anything) is modified or removed; the entry being overwritten is of course exempt, even
\* when its own name looks like a backup
BackupsKept(before, after, name) ==
  \A c \in DOMAIN before : (Len(c) > 1 /\ c # name) => c \in DOMAIN after /\ after[c] = before[c]
\* the old content survives under the original name or under a backup name with a number above every earlier one
OldSurvives(before, after, name) ==
  name \in DOMAIN before =>
     \/ name \in DOMAIN after /\ after[name] = before[name]
     \/ \E c \in DOMAIN after : /\ IsBackupOf(name, c) /\ after[c] = before[name]
                                /\ \A n \in BackupNums(before, name) : c[Len(c)] > n
\* a completed step in a backing-up mode must have preserved the old version under the next number, and nothing else changed
Completed(before, after, name, mode, v) == after = CopyStep(before, name, mode, v)
=============================================================================
