------------------------------ MODULE XcpMerge ------------------------------
(***************************************************************************)
(* libfs::merge_extents (libfs/src/common.rs) transcribed, and the         *)
(* contract it has to meet (C19).  An extent is <<start, end>> with end    *)
(* exclusive; lists are sorted by start.  TLC enumerates ALL sorted lists  *)
(* over the offsets 0..N with at most K extents (overlapping and nested    *)
(* ones included) as the states of a list-building machine, checks the     *)
(* contract on the transcription, and prints every list so that the same   *)
(* lists can be replayed into the real function.                           *)
(***************************************************************************)
EXTENDS Integers, Sequences, FiniteSets, TLC, Json

CONSTANTS N, K, EmitLists

Ext == { <<s, e>> \in (0..N) \X (0..N) : s < e }

\* merge_extents: walk the list, merging when e.start = prev.end + 1
RECURSIVE MergeFrom(_, _, _)
MergeFrom(acc, prev, rest) ==          \* prev = <<>> means None
  IF rest = <<>> THEN (IF prev = <<>> THEN acc ELSE Append(acc, prev))
  ELSE LET e == Head(rest) IN
       IF prev = <<>> THEN MergeFrom(acc, e, Tail(rest))
       ELSE IF e[1] = prev[2] + 1 THEN MergeFrom(acc, <<prev[1], e[2]>>, Tail(rest))
       ELSE MergeFrom(Append(acc, prev), e, Tail(rest))
Merge(list) == MergeFrom(<<>>, <<>>, list)

(***************************************************************************)
(* Contract (Layer B), on any input list and any claimed output            *)
(***************************************************************************)
Cover(l) == { x \in 0..(N - 1) : \E i \in 1..Len(l) : l[i][1] <= x /\ x < l[i][2] }
Coverage(inp, out)   == Cover(inp) \subseteq Cover(out)
Boundaries(inp, out) == \A j \in 1..Len(out) : /\ \E i \in 1..Len(inp) : inp[i][1] = out[j][1]
                                               /\ \E i \in 1..Len(inp) : inp[i][2] = out[j][2]
AdjGaps(inp) == { x \in 0..(N - 1) : \E i \in 1..(Len(inp) - 1) : inp[i][2] = x /\ inp[i + 1][1] = x + 1 }
OnlyGaps(inp, out)   == (Cover(out) \ Cover(inp)) \subseteq AdjGaps(inp)
Disjoint(l) == \A i \in 1..(Len(l) - 1) : l[i][2] <= l[i + 1][1]
Ordered(l)  == \A i \in 1..(Len(l) - 1) : l[i][1] <= l[i + 1][1]
OrderKept(inp, out)  == Ordered(out) /\ (Disjoint(inp) => Disjoint(out))
Contract(inp, out) == Coverage(inp, out) /\ Boundaries(inp, out) /\ OnlyGaps(inp, out) /\ OrderKept(inp, out)

(***************************************************************************)
(* Enumeration machine                                                     *)
(***************************************************************************)
VARIABLE list
Init == list = <<>>
Extend == /\ Len(list) < K
          /\ \E e \in Ext : /\ (IF list = <<>> THEN TRUE ELSE list[Len(list)][1] <= e[1])
                            /\ list' = Append(list, e)
Spec == Init /\ [][Extend]_list

MergeMeetsContract == Contract(list, Merge(list))
Emit == EmitLists => PrintT(<<"LIST", ToJson([inp |-> list, out |-> Merge(list)])>>)
=============================================================================
