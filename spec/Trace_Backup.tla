----------------------------- MODULE Trace_Backup ----------------------------
(***************************************************************************)
(* C09 verdicts on directory listings observed while replaying histories   *)
(* of copies into the real program.  record:                               *)
(*   [id, kind ("step" | "kill"), before, after (listings: sequences of    *)
(*    <<name, content>>), name, mode, v, exit]                             *)
(***************************************************************************)
EXTENDS XcpBackupOps, Json, IOUtils
Rec == ndJsonDeserialize(IOEnv.TRACE)
Fn(l) == [x \in { l[i][1] : i \in 1..Len(l) } |-> (CHOOSE i \in 1..Len(l) : l[i][1] = x) ]
Lst(l) == LET f == Fn(l) IN [x \in DOMAIN f |-> l[f[x]][2]]
Clauses(r) ==
  LET b == Lst(r.before)  a == Lst(r.after) IN
  (IF ~BackupsKept(b, a, r.name) THEN {"backup-modified"} ELSE {})
  \cup (IF r.mode # "none" /\ NeedsBackup(b, r.name, r.mode) /\ ~OldSurvives(b, a, r.name) THEN {"version-lost"} ELSE {})
  \cup (IF r.kind = "step" /\ r.exit = 0 /\ a # CopyStep(b, r.name, r.mode, r.v) THEN {"listing"} ELSE {})
RECURSIVE SetToSeq(_)
SetToSeq(S) == IF S = {} THEN <<>> ELSE LET x == CHOOSE x \in S : TRUE IN <<x>> \o SetToSeq(S \ {x})
VARIABLE l
Init == l = 1
Step == l <= Len(Rec) /\ PrintT(<<"VERDICT", ToJson([id |-> Rec[l].id, viol |-> SetToSeq(Clauses(Rec[l]))])>>) /\ l' = l + 1
Spec == Init /\ [][Step]_l
AllRead == TLCGet("stats").diameter - 1 = Len(Rec)
=============================================================================
