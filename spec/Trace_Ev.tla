------------------------------ MODULE Trace_Ev -------------------------------
(***************************************************************************)
(* Layer-B contract monitor over system-call traces of the real program    *)
(* (strace -f, entry and exit of each call are separate events, log order  *)
(* is consistent with program order and synchronisation order).            *)
(*                                                                         *)
(* Input (NDJSON, env TRACE): for each run                                 *)
(*   reset  [run, fsync, reflink, protected, special, peakBase, fdSlack]   *)
(*   events [ev, ph, tid, kind, path, region, ret, errno, acc, trunc]      *)
(*   end    [exit]                                                         *)
(* The monitor is deterministic (one successor per state); at each `end`   *)
(* it prints one VERDICT line with the clauses the run violated.           *)
(*                                                                         *)
(* Per destination object (identified by its resolved path) it tracks the  *)
(* writes in flight, whether metadata application has begun, whether a     *)
(* successful fsync has happened since the last write, and the clone       *)
(* attempt.                                                                *)
(*                                                                         *)
(*  MetaAfterLastWrite (C06, C10): no data-writing call on an object is    *)
(*     entered once a metadata call on it has been entered, and no         *)
(*     metadata call is entered while a write on it is in flight.          *)
(*  SyncAfterLastWrite (C18): with --fsync and exit 0, every object that   *)
(*     was written has a successful fsync entered after the exit of its    *)
(*     last write, and none is entered while a write is in flight.         *)
(*  Reflink (C15): never => no clone request; auto => a clone request      *)
(*     precedes the first data-copy call on each object; always and exit 0 *)
(*     => every object was cloned successfully and received no data copy.  *)
(*  NoOpenSpecial (C14, C07): a FIFO/socket/device source is never opened. *)
(*  Protected (C03): no mutating call on a protected object.               *)
(*  FdPeak (C20): peak of simultaneously open descriptors, compared with   *)
(*     the peak of the same run on a tree a quarter of the size.           *)
(***************************************************************************)
EXTENDS Integers, Sequences, FiniteSets, TLC, Json, IOUtils

Rec == ndJsonDeserialize(IOEnv.TRACE)
ToSet(s) == { s[i] : i \in 1..Len(s) }

VARIABLES l, cfg,
          pend,       \* set of <<path, tid>>: data-writing calls entered and not yet returned
          wrote,      \* DST objects that received a data-writing call (incl. ftruncate)
          copied,     \* DST objects that received a data-COPY call (copy_file_range, write, pwrite)
          metaS,      \* DST objects on which a metadata call has been entered
          synced,     \* DST objects with a successful fsync entered after their last write returned
          syncing,    \* <<path, tid>> of fsync calls entered while no write was in flight
          cloneTried, cloneOk,
          nopen, peak,
          bad         \* set of clause names violated so far in this run
vars == <<l, cfg, pend, wrote, copied, metaS, synced, syncing, cloneTried, cloneOk, nopen, peak, bad>>

NoCfg == [run |-> "", fsync |-> FALSE, reflink |-> "auto", protected |-> {}, special |-> {}, peakBase |-> -1, fdSlack |-> 0]
Init == /\ l = 1 /\ cfg = NoCfg
        /\ pend = {} /\ wrote = {} /\ copied = {} /\ metaS = {} /\ synced = {} /\ syncing = {}
        /\ cloneTried = {} /\ cloneOk = {} /\ nopen = 0 /\ peak = 0 /\ bad = {}

Fresh(r) == /\ cfg' = [run |-> r.run, fsync |-> r.fsync, reflink |-> r.reflink, protected |-> ToSet(r.protected),
                       special |-> ToSet(r.special), peakBase |-> r.peakBase, fdSlack |-> r.fdSlack]
            /\ pend' = {} /\ wrote' = {} /\ copied' = {} /\ metaS' = {} /\ synced' = {} /\ syncing' = {}
            /\ cloneTried' = {} /\ cloneOk' = {} /\ nopen' = 0 /\ peak' = 0 /\ bad' = {}

InFlight(p) == \E x \in pend : x[1] = p
CopyKinds == {"cfr", "write", "pwrite64", "writev", "pwritev", "sendfile", "splice"}
Mark(c, cond) == IF cond THEN {c} ELSE {}

\* mutation of a protected object (C03), whatever the call
ProtViol(r) == r.path \in cfg.protected /\ r.ph = "call" /\
               \/ r.ev \in {"data", "meta", "unlink", "rename", "symlink", "mknod", "mkdir", "hardlink"}
               \/ r.ev = "open" /\ (r.acc # "r" \/ r.trunc)
RenameSrcProt(r) == r.ev = "rename" /\ r.ph = "call" /\ r.src \in cfg.protected

RECURSIVE SetToSeq(_)
SetToSeq(S) == IF S = {} THEN <<>> ELSE LET x == CHOOSE x \in S : TRUE IN <<x>> \o SetToSeq(S \ {x})

EndVerdict(r) ==
  LET ok == r.exit = 0
      unsynced == IF cfg.fsync /\ ok THEN wrote \ synced ELSE {}
      notCloned == IF cfg.reflink = "always" /\ ok THEN (wrote \ cloneOk) \cup (copied \cap wrote) ELSE {}
      fdGrowth == cfg.peakBase >= 0 /\ peak > cfg.peakBase + cfg.fdSlack
      \* C20 also demands success under the descriptor limit: r.mustSucceed marks such runs, r.missing counts absent/different files
      failedUnderLimit == r.mustSucceed /\ (r.exit # 0 \/ r.missing > 0)
      all == bad \cup Mark("C18", unsynced # {}) \cup Mark("C15", notCloned # {}) \cup Mark("C20", fdGrowth \/ failedUnderLimit)
  IN PrintT(<<"VERDICT", ToJson([run |-> cfg.run, viol |-> SetToSeq(all), peak |-> peak, written |-> Cardinality(wrote),
                                 unsynced |-> SetToSeq(unsynced), exit |-> r.exit])>>)

Event(r) ==
  LET dst   == r.region = "DST"
      call  == r.ph = "call"
      ret   == r.ph = "ret"
      dcall == r.ev = "data" /\ call /\ dst
      dret  == r.ev = "data" /\ ret /\ dst
      mcall == r.ev = "meta" /\ call /\ dst
      scall == r.ev = "sync" /\ call /\ dst
      sret  == r.ev = "sync" /\ ret /\ dst
      ccall == r.ev = "clone" /\ call
      cret  == r.ev = "clone" /\ ret
      oret  == r.ev = "open" /\ ret
      copyk == r.kind \in CopyKinds
  IN
  /\ pend'    = IF dcall THEN pend \cup {<<r.path, r.tid>>} ELSE IF dret THEN pend \ {<<r.path, r.tid>>} ELSE pend
  /\ wrote'   = IF dcall THEN wrote \cup {r.path} ELSE wrote
  /\ copied'  = IF dcall /\ copyk THEN copied \cup {r.path} ELSE copied
  /\ metaS'   = IF mcall THEN metaS \cup {r.path} ELSE metaS
  /\ synced'  = IF dcall THEN synced \ {r.path}                       \* a later write invalidates an earlier sync
                ELSE IF sret /\ r.ret = 0 /\ <<r.path, r.tid>> \in syncing THEN synced \cup {r.path} ELSE synced
  /\ syncing' = IF dcall THEN { x \in syncing : x[1] # r.path }
                ELSE IF scall /\ ~InFlight(r.path) THEN syncing \cup {<<r.path, r.tid>>}
                ELSE IF sret THEN syncing \ {<<r.path, r.tid>>} ELSE syncing
  /\ cloneTried' = IF ccall \/ cret THEN cloneTried \cup {r.path} ELSE cloneTried
  /\ cloneOk' = IF cret /\ r.ret = 0 THEN cloneOk \cup {r.path} ELSE cloneOk
  /\ nopen'   = IF oret /\ r.ret >= 0 THEN nopen + 1
                ELSE IF r.ev = "close" /\ ret /\ r.ret = 0 /\ nopen > 0 THEN nopen - 1 ELSE nopen
  /\ peak'    = IF oret /\ r.ret >= 0 /\ nopen + 1 > peak THEN nopen + 1 ELSE peak
  /\ bad' = bad
       \cup Mark("C06", dcall /\ r.path \in metaS)                    \* write after metadata application began
       \cup Mark("C06", mcall /\ InFlight(r.path))                    \* metadata while a write is in flight
       \cup Mark("C18", scall /\ cfg.fsync /\ InFlight(r.path))       \* fsync while a write is in flight
       \cup Mark("C15", (ccall \/ cret) /\ cfg.reflink = "never")     \* never => no clone request
       \cup Mark("C15", ccall /\ r.path \in copied)                   \* clone attempted after data was copied
       \cup Mark("C15", dcall /\ copyk /\ cfg.reflink = "auto" /\ r.path \notin cloneTried)    \* auto: clone first
       \cup Mark("C14", r.ev = "open" /\ r.path \in cfg.special)     \* special sources are never opened
       \cup Mark("C03", call /\ (ProtViol(r) \/ RenameSrcProt(r)))
  /\ UNCHANGED cfg

Step ==
  /\ l <= Len(Rec) /\ l' = l + 1
  /\ LET r == Rec[l] IN
     IF r.ev = "reset" THEN Fresh(r)
     ELSE IF r.ev = "end"
       THEN EndVerdict(r) /\ UNCHANGED <<cfg, pend, wrote, copied, metaS, synced, syncing, cloneTried, cloneOk, nopen, peak, bad>>
     ELSE Event(r)
Spec == Init /\ [][Step]_vars
AllRead == TLCGet("stats").diameter - 1 = Len(Rec)
=============================================================================
