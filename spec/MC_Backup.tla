------------------------------ MODULE MC_Backup ------------------------------
EXTENDS XcpBackup
MCNames == { <<"a">>, <<"ab">>, <<"a", 1>> }
L(pairs) == [x \in { p[1] : p \in pairs } |-> (CHOOSE p \in pairs : p[1] = x)[2]]
MCSeeds == { L({}),
             L({<< <<"a">>, "S0" >>}),
             L({<< <<"a">>, "S0" >>, << <<"a", 1>>, "S1" >>}),
             L({<< <<"a">>, "S0" >>, << <<"a", 2>>, "S2" >>, << <<"a", 10>>, "S10" >>}),
             L({<< <<"a">>, "S0" >>, << <<"ab", 1>>, "T1" >>, << <<"ab">>, "T0" >>}),
             L({<< <<"a", 1>>, "S1" >>, << <<"a", 1, 4>>, "U4" >>}) }
RECURSIVE S2S(_)
S2S(S) == IF S = {} THEN <<>> ELSE LET x == CHOOSE x \in S : TRUE IN <<x>> \o S2S(S \ {x})
SetToSeqL(f) == LET ks == S2S(DOMAIN f) IN [i \in 1..Len(ks) |-> <<ks[i], f[ks[i]]>>]
\* print each complete history once (for replay into the real program)
EmitHistory == (pc = "idle" /\ step = MaxSteps) =>
   PrintT(<<"HIST", ToJson([steps |-> hist, init |-> SetToSeqL(seed)])>>)
=============================================================================
