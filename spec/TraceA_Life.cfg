SPECIFICATION Spec
POSTCONDITION AllRead
CHECK_DEADLOCK FALSE
