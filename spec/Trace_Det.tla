------------------------------ MODULE Trace_Det ------------------------------
(* C06: all runs of one scenario (drivers x worker counts x perturbations) agree on exit status and on the final destination. *)
EXTENDS Integers, Sequences, FiniteSets, TLC, Json, IOUtils
Rec == ndJsonDeserialize(IOEnv.TRACE)
Verdict(g) ==
  LET n == Len(g.runs)
      exits == { g.runs[i].exit : i \in 1..n }
      okRuns == { i \in 1..n : g.runs[i].exit = 0 }
      views == { g.runs[i].view : i \in okRuns }
      badExit == Cardinality(exits) > 1
      badView == Cardinality(views) > 1
      w1 == IF badExit THEN CHOOSE i \in 1..n : g.runs[i].exit # g.runs[1].exit ELSE 1
      w2 == IF badView THEN CHOOSE i \in okRuns : g.runs[i].view # g.runs[CHOOSE j \in okRuns : TRUE].view ELSE 1
  IN [id |-> g.id, ok |-> ~badExit /\ ~badView,
      what |-> IF badExit THEN "exit status" ELSE IF badView THEN "destination" ELSE "",
      witness |-> IF badExit THEN <<g.runs[1].run, g.runs[w1].run>> ELSE IF badView THEN <<g.runs[CHOOSE j \in okRuns : TRUE].run, g.runs[w2].run>> ELSE <<>>]
VARIABLE l
Init == l = 1
Step == l <= Len(Rec) /\ PrintT(<<"VERDICT", ToJson(Verdict(Rec[l]))>>) /\ l' = l + 1
Spec == Init /\ [][Step]_l
AllRead == TLCGet("stats").diameter - 1 = Len(Rec)
=============================================================================
