----------------------------- MODULE TraceA_Data -----------------------------
(***************************************************************************)
(* Layer-A trace validation of the data plane: the system calls that one   *)
(* real single-file copy issued on its source and destination are replayed *)
(* as actions of XcpData.  Every logged call carries its arguments and its *)
(* result, so each event enables exactly one instance of one action; the   *)
(* steps of the code that issue no system call (choosing the path after    *)
(* the clone attempt, queueing block jobs, joining the pool) are composed  *)
(* in as silent steps.  The trace is accepted iff TLC can consume every    *)
(* event and the model's final destination equals what was read back from  *)
(* the real destination.  A rejection is MODEL DRIFT (the code no longer   *)
(* does what the exhaustively checked design says), not a property         *)
(* violation: verdicts about properties come from Layer B only.            *)
(*                                                                         *)
(* Trace (NDJSON, env TRACE): first record = the scenario                  *)
(*   [len, salloc, driver, bs, reflink, kcopy, prior, cell, dcells]        *)
(* then events, in log order of the call's RETURN:                         *)
(*   [e |-> "create"]                      open(dst, O_CREAT)              *)
(*   [e |-> "alloc", n]                    ftruncate(dst, n cells): first 0, then the length *)
(*   [e |-> "clone", ans]                  FICLONE answered ok/unsupported/error *)
(*   [e |-> "seek", d, h]                  SEEK_DATA / SEEK_HOLE pair (cells, 0-based) *)
(*   [e |-> "copy", off, req, ret]         one kernel copy; off = -1 for the cursor form *)
(*   [e |-> "fiemap", ok]                  extent mapping attempted        *)
(*   [e |-> "fin"]                         first finalisation call         *)
(***************************************************************************)
EXTENDS XcpData, Json, IOUtils, TLCExt

Rec == ndJsonDeserialize(IOEnv.TRACE)        \* one record per real run: [id, sc, ev]
ToSet(s) == { s[i] : i \in 1..Len(s) }

VARIABLES r,                    \* which run this behaviour replays
          l                     \* index of the next event of that run to consume
tvars == <<vars, r, l>>

Sc == Rec[r].sc
Evs == Rec[r].ev
Ev == Evs[l]
Has == l <= Len(Evs)
Is(e) == Has /\ Ev.e = e
Consume == l' = l + 1 /\ r' = r
Keep == l' = l /\ r' = r

TInit ==
  /\ r \in 1..Len(Rec)
  /\ len = Sc.len /\ salloc = ToSet(Sc.salloc) /\ driver = Sc.driver /\ bs = Sc.bs /\ reflink = Sc.reflink /\ kcopy = Sc.kcopy
  /\ dst = [i \in 1..Sc.prior |-> Junk] /\ dalloc = 1..Sc.prior
  /\ pc = "create" /\ pos = 0 /\ segEnd = 0 /\ cur = 0 /\ want = 0
  /\ exts = <<>> /\ jobs = {} /\ result = "run"
  /\ clones = 0 /\ cloneAns = "none" /\ dataOps = 0 /\ mapped = "na"
  /\ l = 1

\* --- event-consuming steps: the XcpData action, restricted to the logged arguments
TCreate   == Is("create") /\ Create /\ Consume
TTruncate == Is("alloc") /\ Ev.n = 0 /\ Truncate /\ Consume                  \* set_len(0) on the verified descriptor
TAllocate == Is("alloc") /\ Ev.n = len /\ Allocate /\ Consume
TClone    == Is("clone") /\ reflink # "never" /\ Clone /\ cloneAns' = Ev.ans /\ Consume
TSeek     == Is("seek") /\ Seek /\ (pc' = "bytes" => cur' = Ev.d /\ pos' = Ev.h) /\ Consume
ReqOk(req, expect) == IF Sc.clamped THEN req <= expect ELSE req = expect      \* a hook plan may shorten the request itself
TCopyCur  == Is("copy") /\ Ev.off = -1 /\ pc = "bytes" /\ want > 0 /\ ReqOk(Ev.req, Min(want, bs)) /\ CopyBytes /\ cur' = cur + Ev.ret /\ Consume
TCopyOff  == Is("copy") /\ Ev.off >= 0 /\ BlockStep /\ Consume
             /\ \E j \in jobs : j.off + j.done = Ev.off /\ ReqOk(Ev.req, j.n - j.done)
                                /\ jobs' = (jobs \ {j}) \cup {[j EXCEPT !.done = j.done + Ev.ret]}
TFiemap   == Is("fiemap") /\ Fiemap /\ mapped' = (IF Ev.ok THEN "yes" ELSE "no") /\ Consume
TFin      == Is("fin") /\ Finalise /\ Consume
\* --- silent steps (no system call of their own)
SClone    == pc = "clone" /\ reflink = "never" /\ Clone /\ Keep
SBytes0   == Bytes0 /\ Keep
SBytesEnd == pc = "bytes" /\ want = 0 /\ CopyBytes /\ Keep
SSeekEnd  == pc = "seek" /\ pos >= len /\ Seek /\ Keep
SWhole    == Whole /\ Keep
SQueue    == Queue /\ Keep
SDrain    == Drain /\ Keep
SFinEnd   == ~Has /\ pc = "finalise" /\ Finalise /\ Keep          \* nothing was requested at finalisation (no-perms, no-timestamps, no fsync)

TNext == TCreate \/ TTruncate \/ TAllocate \/ TClone \/ TSeek \/ TCopyCur \/ TCopyOff \/ TFiemap \/ TFin
         \/ SClone \/ SBytes0 \/ SBytesEnd \/ SSeekEnd \/ SWhole \/ SQueue \/ SDrain \/ SFinEnd
TSpec == TInit /\ [][TNext]_tvars

\* acceptance: some behaviour of run r consumes its whole trace, ends, and the model's destination is what was read back
Accepted == l = Len(Evs) + 1 /\ pc = "end" /\ (result = "ok" => dst = Sc.dcells)
Report == Accepted => PrintT(<<"ACCEPT", ToJson([id |-> Rec[r].id])>>)
=============================================================================
