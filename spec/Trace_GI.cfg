SPECIFICATION TSpec
POSTCONDITION AllRead
CHECK_DEADLOCK FALSE
