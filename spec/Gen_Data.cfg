SPECIFICATION GenSpec
CONSTANTS
  MaxL = 4
  BlockSizes <- GenBlockSizes
  Deviations = {}
INVARIANT Emit
CHECK_DEADLOCK FALSE
