------------------------------ MODULE XcpFinal -------------------------------
(***************************************************************************)
(* Finalisation of one copied file (CopyHandle::finalise_copy) against the *)
(* kernel's rules for metadata calls.  The point of the model: chown(2)    *)
(* clears the set-user-ID and set-group-ID bits, so the ORDER of the steps *)
(* decides whether the source's permission bits survive --ownership.       *)
(***************************************************************************)
EXTENDS Naturals, Sequences, FiniteSets, TLC
CONSTANTS Order,        \* sequence of step names as the code issues them
          Bits          \* {"suid","sgid","sticky","rwx"}
VARIABLES srcMode, flags, mode, owner, mtime, synced, i
vars == <<srcMode, flags, mode, owner, mtime, synced, i>>
Init == /\ srcMode \in SUBSET Bits
        /\ flags \in [noperms : BOOLEAN, notimes : BOOLEAN, ownership : BOOLEAN, fsync : BOOLEAN]
        /\ mode \in {{"rwx"}, {}}            \* default mode of a fresh file / previous mode of an overwritten one
        /\ owner = "dst" /\ mtime = "now" /\ synced = FALSE /\ i = 1
Step ==
  /\ i <= Len(Order) /\ i' = i + 1
  /\ LET s == Order[i] IN
     /\ owner' = IF s = "owner" /\ flags.ownership THEN "src" ELSE owner
     /\ mode'  = IF s = "owner" /\ flags.ownership THEN mode \ {"suid", "sgid"}        \* the kernel's rule
                 ELSE IF s = "perms" /\ ~flags.noperms THEN srcMode ELSE mode
     /\ mtime' = IF s = "times" /\ ~flags.notimes THEN "src" ELSE mtime
     /\ synced' = IF s = "fsync" /\ flags.fsync THEN TRUE ELSE synced
  /\ UNCHANGED <<srcMode, flags>>
Done == i > Len(Order) /\ UNCHANGED vars
Spec == Init /\ [][Step \/ Done]_vars
Finished == i > Len(Order)
ModePreserved  == Finished /\ ~flags.noperms => mode = srcMode                      \* C10
OwnerPreserved == Finished /\ flags.ownership => owner = "src"
TimePreserved  == Finished => (mtime = "src") = ~flags.notimes
NoPermsKeeps   == Finished /\ flags.noperms /\ ~flags.ownership => mode \in {{"rwx"}, {}}
Synced         == Finished /\ flags.fsync => synced                                 \* C18
=============================================================================
