#!/bin/bash
# Unbounded (inductive) checks with Apalache; prints one "APALACHE <module> <step> OK|FAIL" line per obligation.
cd "$(dirname "$0")"
T=${1:-300}
OUT=$(mktemp -d /var/tmp/apalache-out.XXXXXX)
export TMPDIR=$OUT        # the launcher unpacks the standard modules into $(mktemp -d -t SANY...)
run() { # module init inv length
  if timeout $T apalache-mc check --cinit=ConstInit --init=$2 --inv=$3 --length=$4 --out-dir=$OUT $1.tla 2>&1 | grep -q "EXITCODE: OK"; then echo "APALACHE $1 $2=>$3 len=$4 OK"; else echo "APALACHE $1 $2=>$3 len=$4 FAIL"; fi
}
run XcpBlocks Init IndInv 0
run XcpBlocks IndInit IndInv 1
run XcpBlocks IndInit Tiled 0
run XcpRetry Init IndInv 0
run XcpRetry IndInit IndInv 1
run XcpRetry IndInit Stops 0
rm -rf $OUT
