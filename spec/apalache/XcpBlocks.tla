------------------------------ MODULE XcpBlocks ------------------------------
(***************************************************************************)
(* parblock's partition of a byte range into block jobs                    *)
(* (libxcp/src/drivers/parblock.rs queue_file_range):                      *)
(*    blocks = len / bsize + (1 if len % bsize > 0)                        *)
(*    job k (0-based): offset k * bsize, bytes = min(len - k*bsize, bsize) *)
(* and the retry loop of one job (libfs copy_file_offset) / of copy_bytes: *)
(*    written += ret, 1 <= ret <= remaining.                               *)
(* Claim, for ALL lengths and block sizes (no bound): the jobs tile        *)
(* [0, len) exactly - nothing missing, nothing twice, nothing beyond the   *)
(* end.  Checked with Apalache as an inductive invariant over the          *)
(* unbounded integers Len >= 0, Bs >= 1 (see apalache.sh).                 *)
(***************************************************************************)
EXTENDS Integers

CONSTANTS
  \* @type: Int;
  Len,
  \* @type: Int;
  Bs

VARIABLES
  \* @type: Int;
  k,          \* jobs queued so far
  \* @type: Int;
  covered     \* bytes covered by the jobs queued so far: they form the prefix [0, covered)

ConstInit == Len \in Nat /\ Bs \in Nat /\ Bs >= 1

Blocks == (Len \div Bs) + (IF Len % Bs > 0 THEN 1 ELSE 0)
Min(a, b) == IF a < b THEN a ELSE b

Init == k = 0 /\ covered = 0

\* queue job k: it starts at k * Bs - which must be where the previous jobs ended - and is Min(Len - k*Bs, Bs) long
Next ==
  /\ k < Blocks
  /\ covered' = k * Bs + Min(Len - k * Bs, Bs)
  /\ k' = k + 1

\* the inductive invariant: after k jobs exactly the prefix of length min(k*Bs, Len) is covered, and job k (if any) starts there
IndInv ==
  /\ 0 <= k /\ k <= Blocks
  /\ covered = Min(k * Bs, Len)
  /\ (k < Blocks => k * Bs = covered /\ Len - k * Bs >= 1)      \* the next job is contiguous and non-empty
Tiled == (k = Blocks) => covered = Len                          \* all jobs queued => the whole range, no more

IndInit == k \in Int /\ covered \in Int /\ IndInv
=============================================================================
