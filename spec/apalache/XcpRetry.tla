------------------------------- MODULE XcpRetry ------------------------------
(***************************************************************************)
(* The retry loops of CopyHandle::copy_bytes and libfs copy_file_offset:   *)
(*   while written < len: ret = copy(min(len - written, bs)); written += ret *)
(* with the kernel free to move any count 1 <= ret <= requested.  For ALL  *)
(* lengths, block sizes and count sequences: the loop never overshoots,    *)
(* every step makes progress (len - written strictly decreases, so the     *)
(* loop ends after at most len steps), and it can only stop at written =   *)
(* len.  Inductive invariant, checked unboundedly with Apalache.           *)
(***************************************************************************)
EXTENDS Integers
CONSTANTS
  \* @type: Int;
  Len,
  \* @type: Int;
  Bs
VARIABLES
  \* @type: Int;
  written,
  \* @type: Int;
  prev          \* value of `written` before the last step (to state progress)
ConstInit == Len \in Nat /\ Bs \in Nat /\ Bs >= 1
Min(a, b) == IF a < b THEN a ELSE b
Init == written = 0 /\ prev = -1
Next == /\ written < Len
        /\ \E ret \in Int : /\ 1 <= ret /\ ret <= Min(Len - written, Bs)
                            /\ written' = written + ret
        /\ prev' = written
IndInv == 0 <= written /\ written <= Len /\ prev < written
Stops == ~(written < Len) => written = Len
IndInit == written \in Int /\ prev \in Int /\ IndInv
=============================================================================
