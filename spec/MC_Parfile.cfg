SPECIFICATION Spec
CONSTANTS
  Ops <- MCOps
  W = 2
  Faults <- MCFaults
  Deviations = {}
INVARIANTS PrefixOK OpenBound MetaAfterLastWrite ExitZeroComplete NoFaultNoFail FaultFails
PROPERTIES Termination ChannelCloses
CHECK_DEADLOCK TRUE
