SPECIFICATION Spec
INVARIANTS DirOnlyNeverMatchesFiles AnchoredSingleMatchesAtRootOnly ExcludedDirHidesEverythingBelow NegationReincludesUnlessParentExcluded Emit
CHECK_DEADLOCK FALSE
