------------------------------ MODULE Trace_Meta -----------------------------
(* C10 verdicts on (source file, destination file) pairs observed after real runs.                                     *)
(* record: [id, exit, noperms, notimes, ownership, smode, dmode, pmode (previous mode of the destination, -1 if fresh), *)
(*          umask, smtime, dmtime (ns, strings), dmtimeRelMs (destination mtime minus run start, ms), runMs,            *)
(*          suid, sgid, duid, dgid, sx, dx (xattr digests)]                                                             *)
EXTENDS Integers, Sequences, FiniteSets, TLC, Json, IOUtils, Bitwise
Rec == ndJsonDeserialize(IOEnv.TRACE)
Default(r) == 438 - (438 & r.umask)          \* 0666 & ~umask
Clauses(r) ==
  IF r.exit # 0 THEN {} ELSE
  (IF ~r.noperms /\ r.dmode # r.smode THEN {"mode"} ELSE {})
  \cup (IF ~r.noperms /\ r.dx # r.sx THEN {"xattr"} ELSE {})
  \cup (IF r.noperms /\ ~r.ownership /\ r.dmode # (IF r.pmode >= 0 THEN r.pmode ELSE Default(r)) THEN {"noperms"} ELSE {})
  \cup (IF ~r.notimes /\ r.dmtime # r.smtime THEN {"mtime"} ELSE {})
  \cup (IF r.notimes /\ ~(r.dmtimeRelMs >= -50 /\ r.dmtimeRelMs <= r.runMs + 50) THEN {"notimes"} ELSE {})
  \cup (IF r.ownership /\ (r.duid # r.suid \/ r.dgid # r.sgid) THEN {"owner"} ELSE {})
RECURSIVE SetToSeq(_)
SetToSeq(S) == IF S = {} THEN <<>> ELSE LET x == CHOOSE x \in S : TRUE IN <<x>> \o SetToSeq(S \ {x})
VARIABLE l
Init == l = 1
Step == l <= Len(Rec) /\ PrintT(<<"VERDICT", ToJson([id |-> Rec[l].id, viol |-> SetToSeq(Clauses(Rec[l]))])>>) /\ l' = l + 1
Spec == Init /\ [][Step]_l
AllRead == TLCGet("stats").diameter - 1 = Len(Rec)
=============================================================================
