------------------------------ MODULE Gen_Data ------------------------------
(* Scenario generator for the data plane: every initial state of XcpData is one scenario, printed as JSON. *)
EXTENDS XcpData, Json
GenBlockSizes == 1..(MaxL + 1)
SetToSeqI(S) == [i \in 1..Cardinality(S) |-> CHOOSE x \in S : Cardinality({y \in S : y < x}) = i - 1]
Emit == PrintT(<<"SCEN", ToJson([len |-> len, salloc |-> SetToSeqI(salloc), driver |-> driver, bs |-> bs, reflink |-> reflink,
                                 kcopy |-> kcopy, prior |-> Len(dst)])>>)
GenSpec == Init /\ [][UNCHANGED vars]_vars
=============================================================================
