SPECIFICATION TSpec
CONSTANTS
  N = 16
  K = 0
  EmitLists = FALSE
POSTCONDITION AllRead
CHECK_DEADLOCK FALSE
