SPECIFICATION Spec
CONSTANTS
  MaxL = 4
  BlockSizes <- MCBlockSizes
  Deviations = {}
INVARIANTS Exact HolesStayHoles NeverClones AlwaysClones CloneBeforeData AutoFallsBack OneClone
PROPERTY Termination
CHECK_DEADLOCK TRUE
