SPECIFICATION Spec
CONSTANTS
  BSize = 4
  MaxTotal = 14
  MaxChunk = 6
INVARIANTS NeverMoreThanCopied NeverMoreThanAnnounced
CHECK_DEADLOCK FALSE
