------------------------------- MODULE XcpFS -------------------------------
(***************************************************************************)
(* The part of a POSIX name space that xcp touches.                        *)
(*                                                                         *)
(* A file-system state is a SET OF ENTRIES                                  *)
(*    [p, k |-> kind, c |-> content, lt |-> link text, h |-> id, g |-> gen]*)
(* where a path is a sequence of names relative to the sandbox root <<>>   *)
(* (always a directory), kind is one of dir file link fifo sock chr blk,   *)
(* c is a content identifier for files (and the printable link text for    *)
(* links, the device number for nodes), lt is the link text as a sequence  *)
(* of components (first component "/ABS" = absolute, i.e. from the root),  *)
(* h > 0 names a hard-link group (entries with the same h are the same     *)
(* inode), and g = 0 for an object that existed before the run, 1 for one  *)
(* the run created (so "removed and recreated" differs from "untouched").  *)
(***************************************************************************)
EXTENDS Integers, Sequences, FiniteSets, TLC

Front(s) == SubSeq(s, 1, Len(s) - 1)
Last(s)  == s[Len(s)]
IsPrefix(a, b) == Len(a) <= Len(b) /\ SubSeq(b, 1, Len(a)) = a
Strip(a, b) == SubSeq(b, Len(a) + 1, Len(b))            \* b without its prefix a

\* bb/bn: if the entry's name has the form "<base>.~<n>~" then bb = base and bn = n (else "" and 0) - numbered backups
New(p, k, c, lt) == [p |-> p, k |-> k, c |-> c, lt |-> lt, h |-> 0, g |-> 1, bb |-> "", bn |-> 0]
RootEnt == [p |-> <<>>, k |-> "dir", c |-> "", lt |-> <<>>, h |-> 0, g |-> 0, bb |-> "", bn |-> 0]
Has(fs, p)  == p = <<>> \/ \E e \in fs : e.p = p
Ent(fs, p)  == IF p = <<>> THEN RootEnt ELSE CHOOSE e \in fs : e.p = p
Kind(fs, p) == Ent(fs, p).k
Children(fs, p) == { e \in fs : Len(e.p) = Len(p) + 1 /\ IsPrefix(p, e.p) }
Below(fs, p)    == { e \in fs : Len(e.p) > Len(p) /\ IsPrefix(p, e.p) }

(***************************************************************************)
(* Path resolution as the kernel does it.  Result: the canonical path (it  *)
(* exists except possibly for its last component), or an error token.      *)
(***************************************************************************)
ENOENT  == <<"!ENOENT">>
ELOOP   == <<"!ELOOP">>
ENOTDIR == <<"!ENOTDIR">>
IsErr(q) == q \in {ENOENT, ELOOP, ENOTDIR}
Fuel == 41          \* the kernel follows at most 40 links in one resolution (measured here: a chain of 40 resolves, 41 gives ELOOP)

RECURSIVE Res(_, _, _, _, _)
Res(fs, done, rest, follow, fuel) ==
  IF fuel = 0 THEN ELOOP
  ELSE IF rest = <<>> THEN done
  ELSE LET h == Head(rest)  t == Tail(rest) IN
    IF h = "." THEN Res(fs, done, t, follow, fuel)
    ELSE IF h = ".." THEN Res(fs, IF done = <<>> THEN <<>> ELSE Front(done), t, follow, fuel)
    ELSE LET q == Append(done, h) IN
      IF ~Has(fs, q) THEN (IF t = <<>> THEN q ELSE ENOENT)
      ELSE IF Kind(fs, q) = "link" /\ (t # <<>> \/ follow)
             THEN LET txt == Ent(fs, q).lt IN
                  IF txt # <<>> /\ Head(txt) = "/ABS"
                    THEN Res(fs, <<>>, Tail(txt) \o t, follow, fuel - 1)
                    ELSE Res(fs, done, txt \o t, follow, fuel - 1)
      ELSE IF t # <<>> /\ Kind(fs, q) # "dir" THEN ENOTDIR
      ELSE Res(fs, q, t, follow, fuel)

\* A path as written by the user: components, possibly starting with "/ABS".
Resolve(fs, path, follow) ==
  IF path # <<>> /\ Head(path) = "/ABS" THEN Res(fs, <<>>, Tail(path), follow, Fuel)
                                      ELSE Res(fs, <<>>, path, follow, Fuel)

ExistsF(fs, path) == LET q == Resolve(fs, path, TRUE)  IN ~IsErr(q) /\ Has(fs, q)     \* Path::exists()
ExistsL(fs, path) == LET q == Resolve(fs, path, FALSE) IN ~IsErr(q) /\ Has(fs, q)     \* symlink_metadata().is_ok()
IsDirF(fs, path)  == LET q == Resolve(fs, path, TRUE)  IN ~IsErr(q) /\ Has(fs, q) /\ Kind(fs, q) = "dir"
KindL(fs, path)   == LET q == Resolve(fs, path, FALSE) IN IF IsErr(q) \/ ~Has(fs, q) THEN "none" ELSE Kind(fs, q)
KindF(fs, path)   == LET q == Resolve(fs, path, TRUE)  IN IF IsErr(q) \/ ~Has(fs, q) THEN "none" ELSE Kind(fs, q)

\* two paths name the same inode (following links)
SameFile(fs, a, b) ==
  LET qa == Resolve(fs, a, TRUE)  qb == Resolve(fs, b, TRUE) IN
  /\ ~IsErr(qa) /\ ~IsErr(qb) /\ Has(fs, qa) /\ Has(fs, qb)
  /\ \/ qa = qb
     \/ Ent(fs, qa).h # 0 /\ Ent(fs, qa).h = Ent(fs, qb).h

(***************************************************************************)
(* Mutations.  Each returns [ok |-> BOOLEAN, fs |-> new state].            *)
(***************************************************************************)
Ok(fs)   == [ok |-> TRUE,  fs |-> fs]
Fail(fs) == [ok |-> FALSE, fs |-> fs]
Put(fs, e) == { x \in fs : x.p # e.p } \cup {e}

\* mkdir(2) of one component + Rust's "already a directory is fine"
Mkdir1(fs, path) ==
  LET ql == Resolve(fs, path, FALSE) IN
  IF IsErr(ql) THEN Fail(fs)
  ELSE IF Has(fs, ql) THEN (IF IsDirF(fs, path) THEN Ok(fs) ELSE Fail(fs))
  ELSE Ok(Put(fs, New(ql, "dir", "", <<>>)))

RECURSIVE MkdirAll(_, _)
MkdirAll(fs, path) ==                      \* std::fs::create_dir_all
  IF path = <<>> \/ path = <<"/ABS">> THEN Ok(fs)
  ELSE IF IsDirF(fs, path) THEN Ok(fs)
  ELSE LET r == MkdirAll(fs, Front(path)) IN
       IF ~r.ok THEN r ELSE Mkdir1(r.fs, path)

\* open(O_WRONLY|O_CREAT|O_TRUNC) followed by writing all of content c
CreateFile(fs, path, c) ==
  LET q == Resolve(fs, path, TRUE) IN
  IF IsErr(q) \/ q = <<>> THEN Fail(fs)
  ELSE IF Has(fs, q)
         THEN (IF Kind(fs, q) = "file"
                 THEN LET old == Ent(fs, q) IN
                      \* every name of the same inode sees the new content
                      Ok({ IF (x.p = q \/ (old.h # 0 /\ x.h = old.h)) THEN [x EXCEPT !.c = c] ELSE x : x \in fs })
                 ELSE Fail(fs))
  ELSE Ok(Put(fs, New(q, "file", c, <<>>)))

Symlink(fs, path, c, lt) ==
  LET q == Resolve(fs, path, FALSE) IN
  IF IsErr(q) \/ q = <<>> \/ Has(fs, q) THEN Fail(fs)
  ELSE Ok(Put(fs, New(q, "link", c, lt)))

Mknod(fs, path, kind, c) ==
  LET q == Resolve(fs, path, FALSE) IN
  IF IsErr(q) \/ q = <<>> \/ Has(fs, q) THEN Fail(fs)
  ELSE Ok(Put(fs, New(q, kind, c, <<>>)))

Unlink(fs, path) ==                        \* remove_file
  LET q == Resolve(fs, path, FALSE) IN
  IF IsErr(q) \/ q = <<>> \/ ~Has(fs, q) \/ Kind(fs, q) = "dir" THEN Fail(fs)
  ELSE Ok({ x \in fs : x.p # q })

Rename(fs, from, to) ==                    \* of a non-directory onto a non-directory or nothing
  LET qf == Resolve(fs, from, FALSE)  qt == Resolve(fs, to, FALSE) IN
  IF IsErr(qf) \/ IsErr(qt) \/ ~Has(fs, qf) \/ Kind(fs, qf) = "dir" \/ (Has(fs, qt) /\ Kind(fs, qt) = "dir") THEN Fail(fs)
  ELSE Ok(Put({ x \in fs : x.p # qf }, [Ent(fs, qf) EXCEPT !.p = qt]))

\* rename(2) of a non-directory entry to a numbered-backup name in the same directory (libxcp/src/backup.rs get_backup_path)
BackupNums(fs, dirq, base) == { e.bn : e \in { x \in Children(fs, dirq) : x.bb = base /\ x.bn > 0 } }
NextBackup(fs, dirq, base) == IF BackupNums(fs, dirq, base) = {} THEN 1
                              ELSE (CHOOSE n \in BackupNums(fs, dirq, base) : \A m \in BackupNums(fs, dirq, base) : m <= n) + 1
BackupRename(fs, path) ==
  LET q == Resolve(fs, path, FALSE) IN
  IF IsErr(q) \/ q = <<>> \/ ~Has(fs, q) \/ Kind(fs, q) = "dir" THEN Fail(fs)
  ELSE LET base == Last(q)
           n == NextBackup(fs, Front(q), base)
           newp == Append(Front(q), base \o ".~" \o ToString(n) \o "~")
       IN Ok(Put({ x \in fs : x.p # q }, [Ent(fs, q) EXCEPT !.p = newp, !.bb = base, !.bn = n]))

\* what an observer compares: path, kind, content
View(fs) == { [p |-> e.p, k |-> e.k, c |-> e.c] : e \in fs }
=============================================================================
