----------------------------- MODULE XcpParfile -----------------------------
(***************************************************************************)
(* Control plane of the parfile driver (libxcp/src/drivers/parfile.rs) and *)
(* of the binary's main thread (src/main.rs:147-183).                      *)
(*                                                                         *)
(* Threads: main, the copy thread (driver.copy), the walker, W workers.    *)
(* One action per critical section:                                        *)
(*   WalkVisit      tree_walker: mkdir | Size update + enqueue | enqueue   *)
(*   WalkDone/Fail  walker returns; drops the work sender and its updater  *)
(*   WTake(w)       `for op in work` - blocks until an op or disconnection *)
(*   WOpen(w)       CopyHandle::new (open, [backup], create, allocate)     *)
(*   WCopy(w)       one kernel copy inside copy_bytes + Copied update      *)
(*   WFin(w)        finalise(): owner, perms(+xattr), times, fsync         *)
(*   WLink / WSpecial                                                      *)
(*   WFail(w)       Error update, worker returns Err                       *)
(*   CopyJoin*      copy(): join walker (early return on Err), workers     *)
(*   MainRecv / MainClosed / MainJoin   status loop; first Error => exit 1 *)
(* A single fault (chosen in Init) makes exactly one action fail.          *)
(***************************************************************************)
EXTENDS Naturals, Sequences, FiniteSets, TLC

CONSTANTS Ops,         \* sequence of [k |-> "dir"|"file"|"link"|"special", f |-> file id (files only), nb |-> #kernel copies]
          W,           \* workers
          Faults,      \* fault points that may be chosen (at most one per behaviour)
          Deviations   \* {"FinSwallow"}: finalisation errors only logged (pinned tree, repaired by fix de165f3)
                       \* {"LinkIgnored"}: symlink() result discarded (pinned tree, repaired by fix 53d62fd)

Files == { Ops[i].f : i \in { j \in 1..Len(Ops) : Ops[j].k = "file" } }
OpOf(f) == CHOOSE i \in 1..Len(Ops) : Ops[i].k = "file" /\ Ops[i].f = f
NB(f) == Ops[OpOf(f)].nb
Workers == 1..W
FinSteps == 4          \* 1 owner (failure tolerated), 2 permissions, 3 timestamps, 4 fsync

VARIABLES fault, wk, wks, wq, txOpen,
          ws,          \* worker -> [pc, op, b]   pc: "take","open","copy","fin","link","special","ok","err"
          opened, blk, fin, finErr,
          done,        \* set of op indices completed successfully
          chan, sizeSum, copiedSum, holders, cp, cpi, mn, mi
vars == <<fault, wk, wks, wq, txOpen, ws, opened, blk, fin, finErr, done, chan, sizeSum, copiedSum, holders, cp, cpi, mn, mi>>

Running == mn \in {"loop", "join"}
Send(u) == chan' = Append(chan, u)

Init ==
  /\ fault \in Faults \cup {<<"none">>}
  /\ wk = 1 /\ wks = "run" /\ wq = <<>> /\ txOpen = TRUE
  /\ ws = [w \in Workers |-> [pc |-> "take", op |-> 0, b |-> 0]]
  /\ opened = [f \in Files |-> FALSE]
  /\ blk = [f \in Files |-> 0]                     \* kernel copies completed
  /\ fin = [f \in Files |-> 0] /\ finErr = [f \in Files |-> FALSE]
  /\ done = {}
  /\ chan = <<>> /\ sizeSum = 0 /\ copiedSum = 0
  /\ holders = W + 2                               \* copy thread, walker, each worker
  /\ cp = "joinW" /\ cpi = 1 /\ mn = "loop" /\ mi = 0

(* ------------------------------- walker ------------------------------- *)
WalkVisit ==
  /\ Running /\ wks = "run" /\ wk \in 1..Len(Ops)
  /\ LET o == Ops[wk] IN
     IF o.k = "dir"
       THEN /\ IF fault = <<"mkdir", wk>>
                 THEN wks' = "err" /\ txOpen' = FALSE /\ holders' = holders - 1 /\ UNCHANGED <<wk, done>>
                 ELSE wk' = wk + 1 /\ done' = done \cup {wk} /\ UNCHANGED <<wks, txOpen, holders>>
            /\ UNCHANGED <<wq, chan, sizeSum>>
       ELSE /\ wk' = wk + 1 /\ wq' = Append(wq, wk)          \* unbounded queue: a send never blocks nor fails while receivers exist
            /\ IF o.k = "file" THEN Send("S") /\ sizeSum' = sizeSum + o.nb ELSE UNCHANGED <<chan, sizeSum>>
            /\ UNCHANGED <<wks, txOpen, holders, done>>
  /\ UNCHANGED <<fault, ws, opened, blk, fin, finErr, copiedSum, cp, cpi, mn, mi>>

WalkDone ==
  /\ Running /\ wks = "run" /\ wk = Len(Ops) + 1
  /\ wks' = "ok" /\ txOpen' = FALSE /\ holders' = holders - 1
  /\ UNCHANGED <<fault, wk, wq, ws, opened, blk, fin, finErr, done, chan, sizeSum, copiedSum, cp, cpi, mn, mi>>

(* ------------------------------- workers ------------------------------ *)
Set(w, r) == ws' = [ws EXCEPT ![w] = r]
Idle == [pc |-> "take", op |-> 0, b |-> 0]

WTake(w) ==
  /\ Running /\ ws[w].pc = "take"
  /\ IF wq # <<>>
       THEN LET i == Head(wq) IN
            /\ wq' = Tail(wq)
            /\ Set(w, [pc |-> (IF Ops[i].k = "file" THEN "open" ELSE Ops[i].k), op |-> i, b |-> 0])
            /\ UNCHANGED holders
       ELSE /\ ~txOpen /\ UNCHANGED wq                         \* disconnected and drained: worker returns Ok
            /\ Set(w, [pc |-> "ok", op |-> 0, b |-> 0]) /\ holders' = holders - 1
  /\ UNCHANGED <<fault, wk, wks, txOpen, opened, blk, fin, finErr, done, chan, sizeSum, copiedSum, cp, cpi, mn, mi>>

WFail(w) ==     \* updates.send(Error); return Err
  /\ Send("E") /\ Set(w, [ws[w] EXCEPT !.pc = "err"]) /\ holders' = holders - 1

WOpen(w) ==
  /\ Running /\ ws[w].pc = "open"
  /\ LET f == Ops[ws[w].op].f IN
     IF fault = <<"open", f>>
       THEN WFail(w) /\ UNCHANGED opened
       ELSE opened' = [opened EXCEPT ![f] = TRUE] /\ Set(w, [ws[w] EXCEPT !.pc = "copy"]) /\ UNCHANGED <<chan, holders>>
  /\ UNCHANGED <<fault, wk, wks, wq, txOpen, blk, fin, finErr, done, sizeSum, copiedSum, cp, cpi, mn, mi>>

WCopy(w) ==
  /\ Running /\ ws[w].pc = "copy"
  /\ LET f == Ops[ws[w].op].f IN
     IF blk[f] < NB(f)
       THEN IF fault = <<"blk", f, blk[f] + 1>>
              THEN /\ WFail(w) /\ opened' = [opened EXCEPT ![f] = FALSE] /\ UNCHANGED <<blk, copiedSum>>    \* handle dropped (Drop finalises, logged)
              ELSE /\ blk' = [blk EXCEPT ![f] = @ + 1] /\ Send("C") /\ copiedSum' = copiedSum + 1
                   /\ UNCHANGED <<ws, holders, opened>>
       ELSE Set(w, [ws[w] EXCEPT !.pc = "fin"]) /\ UNCHANGED <<blk, chan, copiedSum, holders, opened>>
  /\ UNCHANGED <<fault, wk, wks, wq, txOpen, fin, finErr, done, sizeSum, cp, cpi, mn, mi>>

WFin(w) ==
  /\ Running /\ ws[w].pc = "fin"
  /\ LET f == Ops[ws[w].op].f IN
     IF fin[f] < FinSteps
       THEN LET k == fin[f] + 1
                failed == fault = <<"fin", f, k>> /\ k # 1            \* step 1 (ownership) may fail silently: documented
            IN IF failed /\ "FinSwallow" \notin Deviations
                 THEN /\ finErr' = [finErr EXCEPT ![f] = TRUE] /\ WFail(w)
                      /\ opened' = [opened EXCEPT ![f] = FALSE] /\ UNCHANGED <<fin, done>>
                 ELSE /\ fin' = [fin EXCEPT ![f] = k]
                      /\ finErr' = [finErr EXCEPT ![f] = @ \/ failed]
                      /\ UNCHANGED <<ws, chan, holders, opened, done>>
       ELSE /\ opened' = [opened EXCEPT ![f] = FALSE] /\ done' = done \cup {ws[w].op}
            /\ Set(w, Idle) /\ UNCHANGED <<fin, finErr, chan, holders>>
  /\ UNCHANGED <<fault, wk, wks, wq, txOpen, blk, sizeSum, copiedSum, cp, cpi, mn, mi>>

WLink(w) ==
  /\ Running /\ ws[w].pc = "link"
  /\ IF fault = <<"link", ws[w].op>> /\ "LinkIgnored" \notin Deviations
       THEN WFail(w) /\ UNCHANGED done
       ELSE /\ Set(w, Idle) /\ UNCHANGED <<chan, holders>>
            /\ done' = IF fault = <<"link", ws[w].op>> THEN done ELSE done \cup {ws[w].op}
  /\ UNCHANGED <<fault, wk, wks, wq, txOpen, opened, blk, fin, finErr, sizeSum, copiedSum, cp, cpi, mn, mi>>

WSpecial(w) ==      \* errors here are returned without an Error update (parfile.rs:116-125)
  /\ Running /\ ws[w].pc = "special"
  /\ IF fault = <<"special", ws[w].op>>
       THEN Set(w, [ws[w] EXCEPT !.pc = "err"]) /\ holders' = holders - 1 /\ UNCHANGED done
       ELSE Set(w, Idle) /\ done' = done \cup {ws[w].op} /\ UNCHANGED holders
  /\ UNCHANGED <<fault, wk, wks, wq, txOpen, opened, blk, fin, finErr, chan, sizeSum, copiedSum, cp, cpi, mn, mi>>

(* ------------------------------ copy thread --------------------------- *)
CopyJoinW ==
  /\ Running /\ cp = "joinW" /\ wks \in {"ok", "err"}
  /\ IF wks = "ok" THEN cp' = "joinK" /\ UNCHANGED holders ELSE cp' = "err" /\ holders' = holders - 1
  /\ UNCHANGED <<fault, wk, wks, wq, txOpen, ws, opened, blk, fin, finErr, done, chan, sizeSum, copiedSum, cpi, mn, mi>>

CopyJoinK ==        \* joins[cpi].join()?? in spawn order
  /\ Running /\ cp = "joinK"
  /\ IF cpi > W THEN cp' = "ok" /\ holders' = holders - 1 /\ UNCHANGED cpi
     ELSE /\ ws[cpi].pc \in {"ok", "err"}
          /\ IF ws[cpi].pc = "ok" THEN cpi' = cpi + 1 /\ UNCHANGED <<cp, holders>>
                                  ELSE cp' = "err" /\ holders' = holders - 1 /\ UNCHANGED cpi
  /\ UNCHANGED <<fault, wk, wks, wq, txOpen, ws, opened, blk, fin, finErr, done, chan, sizeSum, copiedSum, mn, mi>>

(* --------------------------------- main ------------------------------- *)
MainRecv ==
  /\ mn = "loop" /\ mi < Len(chan)
  /\ mi' = mi + 1 /\ mn' = IF chan[mi + 1] = "E" THEN "exit1" ELSE "loop"
  /\ UNCHANGED <<fault, wk, wks, wq, txOpen, ws, opened, blk, fin, finErr, done, chan, sizeSum, copiedSum, holders, cp, cpi>>
MainClosed ==
  /\ mn = "loop" /\ mi = Len(chan) /\ holders = 0
  /\ mn' = "join"
  /\ UNCHANGED <<fault, wk, wks, wq, txOpen, ws, opened, blk, fin, finErr, done, chan, sizeSum, copiedSum, holders, cp, cpi, mi>>
MainJoin ==
  /\ mn = "join" /\ cp \in {"ok", "err"}
  /\ mn' = IF cp = "ok" THEN "exit0" ELSE "exit1"
  /\ UNCHANGED <<fault, wk, wks, wq, txOpen, ws, opened, blk, fin, finErr, done, chan, sizeSum, copiedSum, holders, cp, cpi, mi>>

Done == mn \in {"exit0", "exit1"} /\ UNCHANGED vars

Walker == WalkVisit \/ WalkDone
Worker(w) == WTake(w) \/ WOpen(w) \/ WCopy(w) \/ WFin(w) \/ WLink(w) \/ WSpecial(w)
CopyT == CopyJoinW \/ CopyJoinK
Main == MainRecv \/ MainClosed \/ MainJoin
Next == Walker \/ (\E w \in Workers : Worker(w)) \/ CopyT \/ Main \/ Done
Spec == Init /\ [][Next]_vars /\ WF_vars(Walker) /\ (\A w \in Workers : WF_vars(Worker(w))) /\ WF_vars(CopyT) /\ WF_vars(Main)

(* ------------------------------ properties ---------------------------- *)
PrefixOK == copiedSum <= sizeSum                                        \* C12
OpenBound == Cardinality({f \in Files : opened[f]}) <= W                \* C20
MetaAfterLastWrite == \A f \in Files : fin[f] > 0 => blk[f] = NB(f)    \* C06 / C10 / C18 (fsync is step 4)
ExitZeroComplete ==                                                     \* C04
  mn = "exit0" => /\ done = 1..Len(Ops)
                  /\ \A f \in Files : blk[f] = NB(f) /\ fin[f] = FinSteps /\ ~finErr[f]
NoFaultNoFail == fault = <<"none">> => mn # "exit1"                     \* C06: the exit status is a function of the scenario
FaultFails == (mn = "exit0" /\ fault # <<"none">>) => fault[1] = "fin" /\ fault[3] = 1     \* only the tolerated failure goes unreported
Termination == <>(mn \in {"exit0", "exit1"})                            \* C07
ChannelCloses == <>(mn \in {"exit1"} \/ holders = 0)                    \* C12 / C07, library view
=============================================================================
