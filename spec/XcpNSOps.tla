----------------------------- MODULE XcpNSOps -------------------------------------
(***************************************************************************)
(* Name-space plane of xcp: argument validation (src/main.rs), the tree    *)
(* walker (libxcp/src/operations.rs tree_walker) and the execution of the  *)
(* queued operations by the workers in ANY order (drivers/parfile.rs; the  *)
(* parblock dispatcher is the FIFO special case).                          *)
(*                                                                         *)
(* A scenario `sc` is                                                      *)
(*   [id, fs0 (sequence of entries), sources (sequence of args), dest(arg),*)
(*    r, T, n, L (flags: recursive, no-target-directory, no-clobber,       *)
(*    dereference), bk (backup mode), bad (rejected by option/glob parsing)]                                                        *)
(* where an arg is [norm |-> Rust's components() of the spelling,          *)
(* trail |-> written with a trailing slash].                               *)
(*                                                                         *)
(* Layer A (this module's state machine) is checked by TLC against the     *)
(* Layer-B predicates at the bottom, which are also what the trace spec    *)
(* Trace_NS evaluates on observations of the real program.                 *)
(***************************************************************************)
EXTENDS XcpFS

\* Known departures of earlier versions of the code from the intended design; the properties are checked with
\* Deviations = {} and each deviation is shown (MC_NS_dev*.cfg) to make TLC find the corresponding violation.
\*   "NoIdentityCheck"         files are created/truncated without the same-inode test        (repaired: fix 8a55880)
\*   "SpecialNoIdentityCheck"  an existing node is removed without the same-inode test        (repaired: fix after 2nd review)
\*   "ProbeFollowsLinks"       the no-clobber probe follows links (dangling link = absent)    (repaired: fix 5fd47a0)
\*   "IdentityByPathOnly"      the same-inode test is made on the path before the open only; the path may become an
\*                             alias of the source before File::create truncates it              (repaired: fix f36b0cd)
CONSTANT Deviations

SeqToSet(s) == { s[i] : i \in 1..Len(s) }

KPath(a) == a.norm \o (IF a.trail THEN <<".">> ELSE <<>>)     \* what the kernel resolves
AName(a) == Last(a.norm)                                        \* components().next_back()

FS0(sc) == SeqToSet(sc.fs0)

(***************************************************************************)
(* src/main.rs:103-142 — shape validation, before anything is touched.     *)
(***************************************************************************)
TargetBaseNorm(fs, sc, s) ==
  IF ExistsF(fs, KPath(sc.dest)) /\ IsDirF(fs, KPath(sc.dest)) /\ ~sc.T
    THEN sc.dest.norm \o <<AName(s)>>
    ELSE sc.dest.norm

\* the same path as the kernel sees it (a trailing slash of the destination spelling survives when dest is used as is)
TargetBaseK(fs, sc, s) ==
  IF ExistsF(fs, KPath(sc.dest)) /\ IsDirF(fs, KPath(sc.dest)) /\ ~sc.T
    THEN sc.dest.norm \o <<AName(s)>>
    ELSE KPath(sc.dest)

RejectSource(fs, sc, s) ==
  \/ ~ExistsF(fs, KPath(s))
  \/ IsDirF(fs, KPath(s)) /\ ~sc.r
  \/ s.norm = sc.dest.norm
  \/ s.norm = TargetBaseNorm(fs, sc, s)

Rejected(sc) ==
  LET fs == FS0(sc)  n == Len(sc.sources) IN
  \/ sc.bad                      \* invalid for a reason outside this plane (option value, malformed or empty glob)
  \/ n = 0
  \/ /\ ~IsDirF(fs, KPath(sc.dest))
     /\ \/ n = 1 /\ IsDirF(fs, KPath(sc.sources[1])) /\ ExistsF(fs, KPath(sc.dest))
        \/ n > 1
  \/ \E i \in 1..n : RejectSource(fs, sc, sc.sources[i])

(***************************************************************************)
(* The walk of one source (WalkDir, pre-order, follow_links = follow_root_  *)
(* links = dereference).  A visit is                                       *)
(*   [s, rel, from, k, c, lt, err]                                         *)
(* s = source index, rel = path below the source root, from = what is      *)
(* read (the canonical path when dereferencing), k = kind dispatched on.   *)
(***************************************************************************)
Visit(s, rel, from, k, c, lt, err) ==
  [s |-> s, rel |-> rel, from |-> from, k |-> k, c |-> c, lt |-> lt, err |-> err]

RECURSIVE Walk(_, _, _, _, _, _)
Walk(fs, s, src, rel, L, fuel) ==
  LET lex == src \o rel IN
  IF fuel = 0 THEN { Visit(s, rel, lex, "none", "", <<>>, TRUE) }
  ELSE IF ~L THEN
    LET q == Resolve(fs, lex, FALSE) IN
    IF IsErr(q) \/ ~Has(fs, q) THEN { Visit(s, rel, lex, "none", "", <<>>, TRUE) }
    ELSE LET e == Ent(fs, q) IN
      { Visit(s, rel, lex, e.k, e.c, e.lt, e.k = "blk") }
      \cup (IF e.k = "dir"
              THEN UNION { Walk(fs, s, src, Append(rel, Last(ch.p)), L, fuel - 1) : ch \in Children(fs, q) }
              ELSE {})
  ELSE
    LET q == Resolve(fs, lex, TRUE)
        own == KindL(fs, lex)
        parentCanon == IF rel = <<>> THEN <<"!none">> ELSE Resolve(fs, src \o Front(rel), TRUE)
    IN
    IF IsErr(q) \/ ~Has(fs, q) THEN { Visit(s, rel, lex, "none", "", <<>>, TRUE) }        \* dangling or cyclic link
    ELSE LET e == Ent(fs, q) IN
      IF own = "link" /\ e.k = "dir" /\ rel # <<>> /\ IsPrefix(q, parentCanon)
        THEN { Visit(s, rel, lex, "none", "", <<>>, TRUE) }                                \* walkdir: file system loop
      ELSE
        { Visit(s, rel, q, e.k, e.c, <<>>, e.k = "blk") }
        \cup (IF e.k = "dir"
                THEN UNION { Walk(fs, s, src, Append(rel, Last(ch.p)), L, fuel - 1) : ch \in Children(fs, q) }
                ELSE {})

RawVisits(sc) ==
  UNION { Walk(FS0(sc), i, KPath(sc.sources[i]), <<>>, sc.L, 6) : i \in 1..Len(sc.sources) }

\* each visit also carries its mapped destination path `to` (target_base joined with the relative path)
Visits(sc) ==
  LET tb == [i \in 1..Len(sc.sources) |-> TargetBaseK(FS0(sc), sc, sc.sources[i])] IN
  { [s |-> v.s, rel |-> v.rel, from |-> v.from, k |-> v.k, c |-> v.c, lt |-> v.lt, err |-> v.err, to |-> tb[v.s] \o v.rel]
      : v \in RawVisits(sc) }

Target(sc, v) == v.to

Special(k) == k \in {"fifo", "sock", "chr"}

\* needs_backup (libxcp/src/backup.rs): the destination exists (following links) and the mode asks for it;
\* "auto" = only when a numbered backup of that name is already in its directory
NeedsBackupNS(fs, sc, to) ==
  /\ sc.bk # "none" /\ ExistsF(fs, to)
  /\ LET ql == Resolve(fs, to, FALSE) IN
     /\ ~IsErr(ql) /\ ql # <<>> /\ Has(fs, ql)
     /\ sc.bk = "numbered" \/ BackupNums(fs, Front(ql), Last(ql)) # {}

(***************************************************************************)
(* One worker operation applied to a state: [ok, fs].                      *)
(***************************************************************************)
ExecOp(fs, sc, v) ==
  LET to == Target(sc, v) IN
  CASE v.k = "file" ->
         IF SameFile(fs, v.from, to) /\ "NoIdentityCheck" \notin Deviations THEN Fail(fs)   \* identity check in CopyHandle::new
         ELSE IF NeedsBackupNS(fs, sc, to)
           THEN LET b == BackupRename(fs, to) IN IF b.ok THEN CreateFile(b.fs, to, v.c) ELSE b    \* rename, then create
         ELSE CreateFile(fs, to, v.c)
    [] v.k = "link" -> Symlink(fs, to, v.c, v.lt)
    [] Special(v.k) ->
         IF ExistsF(fs, to)
           THEN IF sc.n \/ (SameFile(fs, v.from, to) /\ "SpecialNoIdentityCheck" \notin Deviations)
                  THEN Fail(fs)                                     \* no-clobber; identity check before removal
                ELSE LET u == Unlink(fs, to) IN IF u.ok THEN Mknod(u.fs, to, v.k, v.c) ELSE u
           ELSE Mknod(fs, to, v.k, v.c)
    [] OTHER -> Fail(fs)

\* The replacement of an existing entry by a special node is two system calls; the machine takes them separately.
NeedsUnlink(fs, sc, v) ==
  Special(v.k) /\ ExistsF(fs, v.to) /\ ~sc.n /\ (~SameFile(fs, v.from, v.to) \/ "SpecialNoIdentityCheck" \in Deviations)
Probe(fs, to) == IF "ProbeFollowsLinks" \in Deviations THEN ExistsF(fs, to) ELSE ExistsL(fs, to)

(***************************************************************************)
(* Layer B: the contract, as functions of the scenario and of an observed  *)
(* final state.                                                            *)
(***************************************************************************)
\* Sequential reference execution: parents first, sources in order.
ApplyVisit(r, s, v) ==       \* r = [ok, fs]
  IF ~r.ok THEN r
  ELSE LET to == Target(s, v) IN
    IF v.err \/ (s.n /\ Probe(r.fs, to)) THEN Fail(r.fs)
    ELSE IF v.k = "dir" THEN MkdirAll(r.fs, to)
    ELSE ExecOp(r.fs, s, v)

RECURSIVE RefExec(_, _, _)
RefExec(r, s, todo) ==
  IF todo = {} THEN r
  ELSE LET v == CHOOSE v \in todo : \A w \in todo : /\ w.s >= v.s
                                                 /\ ~(w.s = v.s /\ Len(w.rel) < Len(v.rel))
       IN RefExec(ApplyVisit(r, s, v), s, todo \ {v})

Reference(s) == IF Rejected(s) THEN Fail(FS0(s)) ELSE RefExec(Ok(FS0(s)), s, Visits(s))
ExpectOk(s)   == Reference(s).ok
ExpectedFS(s) == Reference(s).fs

\* entries that must never change: everything a source designates, and bystanders
SourceCanon(s) ==
  { Resolve(FS0(s), KPath(s.sources[i]), TRUE) : i \in 1..Len(s.sources) }
UnderSources(s) ==
  { e \in FS0(s) : \E q \in SourceCanon(s) : ~IsErr(q) /\ IsPrefix(q, e.p) }
MappedCanon(s) ==        \* canonical locations xcp is entitled to create or replace
  IF Rejected(s) THEN {}
  ELSE { Resolve(ExpectedFS(s), Target(s, v), v.k = "file") : v \in { w \in Visits(s) : ~w.err } }
Protected(s) ==
  UnderSources(s) \cup { e \in FS0(s) : e.p \notin MappedCanon(s) }

C03Holds(s, after) == \A e \in Protected(s) : e \in after
C02Holds(s, ex, after) == ex = 0 => View(after) = View(ExpectedFS(s))
C16Holds(s, ex, after) == Rejected(s) => ex # 0 /\ after = FS0(s)
Collides(s) == ~Rejected(s) /\ \E v \in Visits(s) : v.k # "dir" /\ ~v.err /\ ExistsL(FS0(s), Target(s, v))
C08Holds(s, ex, after) == s.n => (\A e \in FS0(s) : e \in after) /\ (Collides(s) => ex # 0)
NoLinks(after, s) ==     \* C13: nothing created by the run is a symbolic link
  \A e \in after : e.k = "link" => e \in FS0(s)
C13Holds(s, ex, after) == s.L => /\ (ex = 0 => NoLinks(after, s) /\ View(after) = View(ExpectedFS(s)))
                                 /\ ((\E v \in Visits(s) : v.err) => ex # 0)

=============================================================================
