------------------------------- MODULE XcpNS --------------------------------
(***************************************************************************)
(* Layer A of the name-space plane: main's validation, the walker and the  *)
(* workers as a state machine over the operators of XcpNSOps; every        *)
(* interleaving of walker steps and queued operations is explored.         *)
(***************************************************************************)
EXTENDS XcpNSOps

(***************************************************************************)
(* State machine                                                           *)
(***************************************************************************)
CONSTANT Scenarios              \* set of scenario records explored

VARIABLES sc, fs, visited, pending, half, checked, st, exit,
          vis, refr, prot      \* Visits(sc), Reference(sc), Protected(sc): functions of sc, computed once per behaviour
vars == <<sc, fs, visited, pending, half, checked, st, exit, vis, refr, prot>>

Init ==
  /\ sc \in Scenarios
  /\ fs = FS0(sc)
  /\ visited = {} /\ pending = {} /\ half = {} /\ checked = {}
  /\ st = "start" /\ exit = -1
  /\ vis = (IF Rejected(sc) THEN {} ELSE Visits(sc))
  /\ refr = Reference(sc)
  /\ prot = Protected(sc)

MainValidate ==
  /\ st = "start"
  /\ IF Rejected(sc) THEN st' = "done" /\ exit' = 1 ELSE st' = "walk" /\ exit' = exit
  /\ UNCHANGED <<sc, fs, visited, pending, half, checked, vis, refr, prot>>

\* next entry the walker may yield: sources in order, a directory before what is inside it
CanVisit(v) ==
  /\ v \notin visited
  /\ \A w \in vis \ visited : w.s >= v.s
  /\ v.rel = <<>> \/ \E w \in visited : w.s = v.s /\ w.rel = Front(v.rel)

WalkStep ==
  /\ st = "walk"
  /\ \E v \in vis :
       /\ CanVisit(v)
       /\ visited' = visited \cup {v}
       /\ LET to == Target(sc, v) IN
          IF v.err \/ (sc.n /\ Probe(fs, to))
            THEN st' = "fail" /\ UNCHANGED <<fs, pending>>
          ELSE IF v.k = "dir"
            THEN LET r == MkdirAll(fs, to) IN
                 IF r.ok THEN fs' = r.fs /\ UNCHANGED <<st, pending>>
                         ELSE st' = "fail" /\ UNCHANGED <<fs, pending>>
          ELSE pending' = pending \cup {v} /\ UNCHANGED <<fs, st>>
  /\ UNCHANGED <<sc, exit, half, checked, vis, refr, prot>>

WorkStep ==
  /\ st \in {"walk", "fail"}            \* after a failure the other threads may still finish what they hold
  /\ \/ \E v \in pending :
          IF v.k = "file" /\ "IdentityByPathOnly" \in Deviations /\ v \notin checked /\ ~SameFile(fs, v.from, v.to)
            THEN \* deviation: the identity test passes now; the create/truncate is a later step
                 /\ checked' = checked \cup {v} /\ UNCHANGED <<fs, pending, half, st>>
          ELSE IF v.k = "file" /\ v \in checked
            THEN LET r == CreateFile(fs, v.to, v.c) IN
                 /\ pending' = pending \ {v} /\ fs' = r.fs /\ st' = (IF r.ok THEN st ELSE "fail") /\ UNCHANGED <<half, checked>>
          ELSE IF NeedsUnlink(fs, sc, v)
            THEN LET u == Unlink(fs, v.to) IN           \* first half: remove_file
                 /\ pending' = pending \ {v}
                 /\ fs' = u.fs /\ UNCHANGED checked
                 /\ IF u.ok THEN half' = half \cup {v} /\ st' = st ELSE half' = half /\ st' = "fail"
            ELSE LET r == ExecOp(fs, sc, v) IN
                 /\ pending' = pending \ {v}
                 /\ fs' = r.fs
                 /\ st' = IF r.ok THEN st ELSE "fail"
                 /\ half' = half /\ UNCHANGED checked
     \/ \E v \in half :                                 \* second half: mknod
          LET r == Mknod(fs, v.to, v.k, v.c) IN
          /\ half' = half \ {v} /\ fs' = r.fs /\ st' = (IF r.ok THEN st ELSE "fail") /\ pending' = pending /\ UNCHANGED checked
  /\ UNCHANGED <<sc, visited, exit, vis, refr, prot>>

Finish ==
  \/ /\ st = "walk" /\ visited = vis /\ pending = {} /\ half = {}
     /\ st' = "done" /\ exit' = 0 /\ UNCHANGED <<sc, fs, visited, pending, half, checked, vis, refr, prot>>
  \/ /\ st = "fail"
     /\ st' = "done" /\ exit' = 1 /\ UNCHANGED <<sc, fs, visited, pending, half, checked, vis, refr, prot>>

Done == st = "done" /\ UNCHANGED vars

Next == MainValidate \/ WalkStep \/ WorkStep \/ Finish \/ Done
Spec == Init /\ [][Next]_vars /\ WF_vars(Next)

(***************************************************************************)
(* Layer-A invariants (checked by TLC on every reachable state).           *)
(***************************************************************************)
InvC03 == \A e \in prot : e \in fs
InvC08 == sc.n => \A e \in FS0(sc) : e \in fs
InvC16 == Rejected(sc) => fs = FS0(sc)
InvDirBeforeChild ==          \* C06: whatever is queued already has its parent directory
  \A v \in pending : v.rel = <<>> \/ IsDirF(fs, Front(v.to))
InvOutcome ==
  st = "done" =>
    /\ (exit = 0 => View(fs) = View(refr.fs))                                   \* C02 (and C13's tree clause)
    /\ (Rejected(sc) => exit # 0 /\ fs = FS0(sc))                               \* C16
    /\ (sc.n /\ (\E v \in vis : v.k # "dir" /\ ~v.err /\ ExistsL(FS0(sc), v.to)) => exit # 0)   \* C08
    /\ (sc.L /\ exit = 0 => \A e \in fs : e.k = "link" => e \in FS0(sc))        \* C13
    /\ ((\E v \in vis : v.err) => exit # 0)                                     \* C13 / C14
    /\ (exit = 0) = refr.ok                      \* the exit status is a function of the scenario (C06)
Termination == <>(st = "done")
=============================================================================
