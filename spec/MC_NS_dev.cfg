SPECIFICATION Spec
CONSTANT Scenarios <- MCScenarios
CONSTANT Deviations = {"NoIdentityCheck", "SpecialNoIdentityCheck", "ProbeFollowsLinks", "IdentityByPathOnly"}
INVARIANTS InvC03 InvC08 InvC16 InvDirBeforeChild InvOutcome EmitPrediction
PROPERTY Termination
CHECK_DEADLOCK TRUE
