SPECIFICATION Spec
CONSTANTS
  Ops <- MCOps
  W = 2
  Q = 1
  Faults <- MCFaults
  Deviations = {}
INVARIANTS MetaAfterLastWrite SyncAfterWrites PrefixOK OpenBound ExitZeroComplete NoFaultNoFail
PROPERTIES Termination ChannelCloses
CHECK_DEADLOCK TRUE
