------------------------------ MODULE TraceA_Life -----------------------------
(***************************************************************************)
(* Layer-A trace validation of the control planes, per destination file.   *)
(*                                                                         *)
(* XcpParfile and XcpParblock give every copied file the same life:        *)
(*    WOpen / DispOpen   open(dst, O_CREAT) ; set_len(0) ; ftruncate(len)  *)
(*    clone attempt      at most one FICLONE, by the thread that opened    *)
(*    WCopy / PoolCopy   kernel copies: by the opener (parfile), by pool   *)
(*                       threads other than the dispatcher (parblock)      *)
(*    WFin / FinStep     owner, xattrs + permissions, timestamps, fsync -  *)
(*                       in this order, all by ONE thread (the worker, or  *)
(*                       whichever thread dropped the last reference),     *)
(*                       after every copy has returned                     *)
(*    close              by that thread                                    *)
(* This module replays the system-call events of a real run (the same      *)
(* records Trace_Ev reads) against that life cycle, one small automaton    *)
(* per destination object.  A mismatch is MODEL DRIFT: the code no longer  *)
(* has the shape the exhaustively checked design models (an allowed        *)
(* refactoring can cause it) - it is reported in the evidence and never    *)
(* raises a VIOLATION.                                                     *)
(***************************************************************************)
EXTENDS Integers, Sequences, FiniteSets, TLC, Json, IOUtils

Rec == ndJsonDeserialize(IOEnv.TRACE)

VARIABLES l, run, driver,
          stage,      \* dst path -> "opened" | "trunc" | "alloc" | "copy" | "fin" | "closed"
          opener,     \* dst path -> tid that created it
          finBy,      \* dst path -> tid that issued the first finalisation call
          finStep,    \* dst path -> rank of the last finalisation call seen (owner 1, xattr 2, chmod 3, times 4, fsync 5)
          cloned,     \* dst paths with a clone attempt
          inflight,   \* set of <<path, tid>> of copies entered and not returned
          dispatcher, \* parblock: the tid that opens destination files (0 = none yet)
          nworkers,   \* --workers of the run (0 = not recorded)
          liveSet, live, maxLive,   \* destination handles open now (set, count) and the peak of the count
          copiers,    \* tids that issued a data-copy call on a destination file
          lite,       \* TRUE: the trace holds open/close events only (C20's big trees) - only the handle count is replayed
          drift       \* set of drift descriptions for this run
vars == <<l, run, driver, stage, opener, finBy, finStep, cloned, inflight, dispatcher, nworkers, liveSet, live, maxLive, copiers, lite, drift>>

\* XcpParblock!OpenBound: handles <= Q + W + 1 (Q = 128 queued block jobs, W running, one in the dispatcher's hands);
\* XcpParfile: one handle per worker
PoolQueue == 128
HandleBound == IF driver = "parblock" THEN PoolQueue + nworkers + 1 ELSE nworkers

Empty == [x \in {} |-> 0]
Init == /\ l = 1 /\ run = "" /\ driver = "" /\ stage = Empty /\ opener = Empty /\ finBy = Empty /\ finStep = Empty
        /\ cloned = {} /\ inflight = {} /\ dispatcher = 0 /\ drift = {}
        /\ nworkers = 0 /\ liveSet = {} /\ live = 0 /\ maxLive = 0 /\ copiers = {} /\ lite = FALSE

Upd(f, k, v) == [x \in DOMAIN f \cup {k} |-> IF x = k THEN v ELSE f[x]]
Known(p) == p \in DOMAIN stage
Rank(kind) == CASE kind \in {"fchown"} -> 1 [] kind \in {"fsetxattr"} -> 2 [] kind = "fchmod" -> 3 [] kind \in {"utimensat", "futimens"} -> 4 [] OTHER -> 0
D(cond, what) == IF cond THEN {what} ELSE {}
CopyKinds == {"cfr", "write", "pwrite64"}

RECURSIVE SetToSeq(_)
SetToSeq(S) == IF S = {} THEN <<>> ELSE LET x == CHOOSE x \in S : TRUE IN <<x>> \o SetToSeq(S \ {x})

Event(r) ==
  LET p == r.path
      dst == r.region = "DST"
      call == r.ph = "call"
      ret == r.ph = "ret"
      isOpenCreate == r.ev = "open" /\ ret /\ dst /\ r.creat /\ r.ret >= 0
      isTrunc == r.ev = "data" /\ call /\ dst /\ r.kind = "ftruncate"
      isCopyCall == r.ev = "data" /\ call /\ dst /\ r.kind \in CopyKinds
      isCopyRet == r.ev = "data" /\ ret /\ dst /\ r.kind \in CopyKinds
      isClone == r.ev = "clone" /\ call /\ dst
      isMeta == r.ev = "meta" /\ call /\ dst /\ Rank(r.kind) > 0
      isSync == r.ev = "sync" /\ call /\ dst
      isClose == r.ev = "close" /\ call /\ dst /\ Known(p)
      st == IF Known(p) THEN stage[p] ELSE "none"
      opens == isOpenCreate /\ p \notin liveSet
      closes == r.ev = "close" /\ call /\ dst /\ p \in liveSet
  IN
  /\ liveSet' = IF opens THEN liveSet \cup {p} ELSE IF closes THEN liveSet \ {p} ELSE liveSet
  /\ live' = IF opens THEN live + 1 ELSE IF closes THEN live - 1 ELSE live
  /\ maxLive' = IF opens /\ live + 1 > maxLive THEN live + 1 ELSE maxLive
  /\ copiers' = IF isCopyCall THEN copiers \cup {r.tid} ELSE copiers
  /\ stage' = IF lite THEN stage
              ELSE IF isOpenCreate THEN Upd(stage, p, "opened")
              ELSE IF isTrunc /\ st = "opened" THEN Upd(stage, p, "trunc")
              ELSE IF isTrunc /\ st = "trunc" THEN Upd(stage, p, "alloc")
              ELSE IF isCopyCall /\ st \in {"alloc", "copy"} THEN Upd(stage, p, "copy")
              ELSE IF (isMeta \/ isSync) /\ st \in {"alloc", "copy", "fin"} THEN Upd(stage, p, "fin")
              ELSE IF isClose /\ r.tid = (IF p \in DOMAIN finBy THEN finBy[p] ELSE opener[p]) /\ st \in {"alloc", "copy", "fin"} THEN Upd(stage, p, "closed")
              ELSE stage
  /\ opener' = IF isOpenCreate /\ ~lite THEN Upd(opener, p, r.tid) ELSE opener
  /\ dispatcher' = IF isOpenCreate /\ driver = "parblock" /\ dispatcher = 0 THEN r.tid ELSE dispatcher
  /\ finBy' = IF (isMeta \/ isSync) /\ p \notin DOMAIN finBy THEN Upd(finBy, p, r.tid) ELSE finBy
  /\ finStep' = IF isMeta THEN Upd(finStep, p, Rank(r.kind)) ELSE IF isSync THEN Upd(finStep, p, 5) ELSE finStep
  /\ cloned' = IF isClone THEN cloned \cup {p} ELSE cloned
  /\ inflight' = IF isCopyCall THEN inflight \cup {<<p, r.tid>>} ELSE IF isCopyRet THEN inflight \ {<<p, r.tid>>} ELSE inflight
  /\ drift' = drift
       \cup D(isTrunc /\ st \notin {"opened", "trunc"}, "ftruncate outside open/truncate/allocate")
       \cup D(isTrunc /\ Known(p) /\ r.tid # opener[p], "ftruncate by another thread than the opener")
       \cup D(isClone /\ (st # "alloc" \/ p \in cloned \/ r.tid # opener[p]), "clone attempt not exactly once, after allocation, by the opener")
       \cup D(isCopyCall /\ st \notin {"alloc", "copy"}, "copy before allocation or after finalisation began")
       \cup D(isCopyCall /\ driver = "parfile" /\ Known(p) /\ r.tid # opener[p], "parfile: copy by another thread than the opener")
       \cup D(isCopyCall /\ driver = "parblock" /\ r.tid = dispatcher, "parblock: copy issued by the dispatcher")
       \cup D(isOpenCreate /\ driver = "parblock" /\ dispatcher # 0 /\ r.tid # dispatcher, "parblock: destination opened by another thread than the dispatcher")
       \cup D((isMeta \/ isSync) /\ \E x \in inflight : x[1] = p, "finalisation while a copy is in flight")
       \cup D((isMeta \/ isSync) /\ p \in DOMAIN finBy /\ finBy[p] # r.tid, "finalisation calls from two threads")
       \cup D(isMeta /\ p \in DOMAIN finStep /\ Rank(r.kind) < finStep[p], "finalisation steps out of order (owner, xattrs, permissions, timestamps, fsync)")
       \cup D(isSync /\ p \in DOMAIN finStep /\ finStep[p] = 5, "second fsync")
       \cup D((isMeta \/ isSync) /\ driver = "parfile" /\ Known(p) /\ r.tid # opener[p], "parfile: finalisation by another thread than the opener")
  /\ UNCHANGED <<run, driver, nworkers, lite>>

Step ==
  /\ l <= Len(Rec) /\ l' = l + 1
  /\ LET r == Rec[l] IN
     IF r.ev = "reset"
       THEN /\ run' = r.run /\ driver' = r.driver /\ stage' = Empty /\ opener' = Empty /\ finBy' = Empty /\ finStep' = Empty
            /\ cloned' = {} /\ inflight' = {} /\ dispatcher' = 0 /\ drift' = {}
            /\ nworkers' = r.workers /\ liveSet' = {} /\ live' = 0 /\ maxLive' = 0 /\ copiers' = {} /\ lite' = r.lite
     ELSE IF r.ev = "end"
       THEN /\ PrintT(<<"LIFE", ToJson([run |-> run,
                                        drift |-> SetToSeq(drift \cup D(r.exit = 0 /\ ~r.partial /\ \E p \in DOMAIN stage : stage[p] # "closed", "a destination file was not taken through to close")
                                                                 \cup D(nworkers > 0 /\ maxLive > HandleBound, "more destination handles open at once than the control-plane model allows (OpenBound)")
                                                                 \cup D(nworkers > 0 /\ Cardinality(copiers) > nworkers, "more copying threads than --workers")),
                                        files |-> Cardinality(DOMAIN stage), maxLive |-> maxLive, bound |-> HandleBound])>>)
            /\ UNCHANGED <<run, driver, stage, opener, finBy, finStep, cloned, inflight, dispatcher, nworkers, liveSet, live, maxLive, copiers, lite, drift>>
     ELSE Event(r)
Spec == Init /\ [][Step]_vars
AllRead == TLCGet("stats").diameter - 1 = Len(Rec)
=============================================================================
