---------------------------- MODULE XcpGitignore -----------------------------
(***************************************************************************)
(* git's pattern semantics for ONE .gitignore at the root of a tree - the  *)
(* oracle C17 names - transcribed as recursive operators.                  *)
(*                                                                         *)
(* A name is a sequence of one-character strings; a segment is a sequence  *)
(* of tokens (a character, "*", "?"); a pattern is [neg, anch, dir, segs]: *)
(* neg = leading "!", anch = has a leading or inner slash, dir = trailing  *)
(* slash, segs = sequence of segments or the marker <<"**">>.              *)
(* Comment and blank lines produce no pattern.                             *)
(* The transcription agrees with `git check-ignore --no-index` on every    *)
(* generated case (the harness re-checks this on each run: a disagreement  *)
(* is a specification error, never a verdict about xcp).                   *)
(***************************************************************************)
EXTENDS Naturals, Sequences, FiniteSets, TLC, Json

STAR2 == <<"**">>

RECURSIVE MSeg(_, _)
MSeg(seg, name) ==
  IF seg = <<>> THEN name = <<>>
  ELSE IF Head(seg) = "*" THEN \E k \in 0..Len(name) : MSeg(Tail(seg), SubSeq(name, k + 1, Len(name)))
  ELSE IF Head(seg) = "?" THEN name # <<>> /\ MSeg(Tail(seg), Tail(name))
  ELSE name # <<>> /\ Head(name) = Head(seg) /\ MSeg(Tail(seg), Tail(name))

RECURSIVE MPath(_, _)
MPath(ps, xs) ==
  IF ps = <<>> THEN xs = <<>>
  ELSE IF Head(ps) = STAR2
         THEN IF Tail(ps) = <<>> THEN Len(xs) >= 1
              ELSE \E k \in 0..Len(xs) : MPath(Tail(ps), SubSeq(xs, k + 1, Len(xs)))
  ELSE xs # <<>> /\ MSeg(Head(ps), Head(xs)) /\ MPath(Tail(ps), Tail(xs))

PatMatches(p, path, isDir) ==
  /\ (p.dir => isDir)
  /\ IF p.anch THEN MPath(p.segs, path) ELSE MSeg(p.segs[1], path[Len(path)])

Excluded(pats, path, isDir) ==                       \* the last matching line wins
  LET ms == { i \in 1..Len(pats) : PatMatches(pats[i], path, isDir) } IN
  ms # {} /\ ~pats[CHOOSE i \in ms : \A j \in ms : j <= i].neg

Ignored(pats, path, isDir) ==                        \* an excluded directory cannot be re-entered
  \/ \E n \in 1..(Len(path) - 1) : Excluded(pats, SubSeq(path, 1, n), TRUE)
  \/ Excluded(pats, path, isDir)

\* what a copy with --gitignore must produce: exactly the entries that are not ignored.
\* tree = set of [path, dir]; dir = the entry's OWN type is directory (a link to a directory is not one)
Copied(pats, tree) == { e \in tree : ~Ignored(pats, e.path, e.dir) }

(***************************************************************************)
(* Bounded pattern space and the fixed probe tree                          *)
(***************************************************************************)
Segs == { <<"a">>, <<"*">>, <<"?">>, <<"a","*">>, <<"*",".","b">>, <<"a","b">>, <<".","a">>, <<".","*">> }
Pats == { [neg |-> n, anch |-> FALSE, dir |-> d, segs |-> <<s>>] : n \in BOOLEAN, d \in BOOLEAN, s \in Segs }
   \cup { [neg |-> n, anch |-> TRUE, dir |-> d, segs |-> <<s>>] : n \in BOOLEAN, d \in BOOLEAN, s \in Segs }            \* "/s"
   \cup { [neg |-> FALSE, anch |-> TRUE, dir |-> d, segs |-> <<s, t>>] : d \in BOOLEAN, s \in {<<"a">>, <<"*">>}, t \in {<<"b">>, <<"*">>, <<"a","*">>} }   \* "s/t"
   \cup { [neg |-> FALSE, anch |-> TRUE, dir |-> FALSE, segs |-> <<STAR2, s>>] : s \in {<<"a">>, <<"*",".","b">>} }   \* "**/s"
   \cup { [neg |-> FALSE, anch |-> TRUE, dir |-> FALSE, segs |-> <<s, STAR2>>] : s \in {<<"a">>} }                      \* "s/**"
   \cup { [neg |-> FALSE, anch |-> TRUE, dir |-> FALSE, segs |-> <<<<"a">>, STAR2, <<"b">>>>] }                          \* "a/**/b"
PatLists == { <<p>> : p \in Pats } \cup { <<p, q>> : p \in Pats, q \in {x \in Pats : x.neg \/ x.anch} }

N(s) == s       \* names are written as sequences of characters
E(path, d) == [path |-> path, dir |-> d]
A == <<"a">>  B == <<"b">>  AB == <<"a","b">>  DA == <<".","a">>  ADB == <<"a",".","b">>
GI == <<".","g">>          \* stands for the file ".gitignore" itself (matched like any other hidden name)
LD == <<"l","d">>          \* a symbolic link to the directory a: its own type is not "directory"
Tree == { E(<<A>>, TRUE), E(<<A, A>>, FALSE), E(<<A, B>>, TRUE), E(<<A, B, B>>, FALSE), E(<<A, B, A>>, TRUE), E(<<A, AB>>, FALSE), E(<<A, DA>>, FALSE),
          E(<<A, ADB>>, FALSE), E(<<B>>, TRUE), E(<<B, A>>, FALSE), E(<<B, B>>, FALSE), E(<<B, AB>>, FALSE), E(<<B, DA>>, TRUE), E(<<B, DA, A>>, FALSE),
          E(<<B, ADB>>, FALSE), E(<<AB>>, FALSE), E(<<DA>>, FALSE), E(<<ADB>>, FALSE), E(<<GI>>, FALSE), E(<<LD>>, FALSE) }

(***************************************************************************)
(* Enumeration: every pattern list is a state; sanity laws are invariants; *)
(* each state prints the list and the set that must be copied.             *)
(***************************************************************************)
VARIABLE pl
Init == pl \in PatLists
Spec == Init /\ [][UNCHANGED pl]_pl

DirOnlyNeverMatchesFiles == \A i \in 1..Len(pl), e \in Tree : (pl[i].dir /\ ~e.dir) => ~PatMatches(pl[i], e.path, e.dir)
AnchoredSingleMatchesAtRootOnly ==
  \A i \in 1..Len(pl), e \in Tree : (pl[i].anch /\ Len(pl[i].segs) = 1 /\ pl[i].segs[1] # STAR2 /\ PatMatches(pl[i], e.path, e.dir)) => Len(e.path) = 1
ExcludedDirHidesEverythingBelow ==
  \A d \in Tree, e \in Tree : (d.dir /\ Len(e.path) > Len(d.path) /\ SubSeq(e.path, 1, Len(d.path)) = d.path /\ Ignored(pl, d.path, TRUE)) => Ignored(pl, e.path, e.dir)
NegationReincludesUnlessParentExcluded ==
  \A e \in Tree : (Len(pl) = 2 /\ pl[2].neg /\ PatMatches(pl[2], e.path, e.dir)
                    /\ ~\E n \in 1..(Len(e.path) - 1) : Excluded(pl, SubSeq(e.path, 1, n), TRUE)) => ~Ignored(pl, e.path, e.dir)
Emit == PrintT(<<"GI", ToJson([pats |-> pl, keep |-> { e.path : e \in Copied(pl, Tree) }])>>)
=============================================================================
