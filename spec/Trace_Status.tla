----------------------------- MODULE Trace_Status ----------------------------
(***************************************************************************)
(* C12 verdicts on update streams recorded by the API probe.               *)
(* record: [id, stream (sequence of [u, n]), total (sum of the lengths of  *)
(* the regular files to be copied), transferred (bytes moved by data-copy  *)
(* system calls on destination files per strace; -1 = not measured),       *)
(* result ("ok"|"err"|"hang"|"panic"), closed, missing (number of source   *)
(* files absent or different at the destination), exact (the updater       *)
(* delivers every update: client-supplied recorder)]                       *)
(***************************************************************************)
EXTENDS Integers, Sequences, FiniteSets, TLC, Json, IOUtils
Rec == ndJsonDeserialize(IOEnv.TRACE)

RECURSIVE Walk(_, _, _, _)
\* first index at which more bytes are reported copied than announced; 0 if none
Walk(s, i, size, copied) ==
  IF i > Len(s) THEN 0
  ELSE LET u == s[i]
           size2 == IF u.u = "Size" THEN size + u.n ELSE size
           cop2 == IF u.u = "Copied" THEN copied + u.n ELSE copied
       IN IF cop2 > size2 THEN i ELSE Walk(s, i + 1, size2, cop2)
RECURSIVE Sum(_, _, _)
Sum(s, i, k) == IF i > Len(s) THEN 0 ELSE (IF s[i].u = k THEN s[i].n ELSE 0) + Sum(s, i + 1, k)
HasError(s) == \E i \in 1..Len(s) : s[i].u = "Error"

Clauses(r) ==
  LET over == Walk(r.stream, 1, 0, 0)
      sizes == Sum(r.stream, 1, "Size")
      copied == Sum(r.stream, 1, "Copied")
  IN (IF over # 0 THEN {"prefix"} ELSE {})                                                     \* never more than announced, at any point
     \cup (IF r.result = "ok" /\ ~r.noop /\ sizes # r.total THEN {"sizes"} ELSE {})           \* announced sizes sum to the total
     \cup (IF r.transferred >= 0 /\ copied > r.transferred THEN {"transferred"} ELSE {})       \* never more than actually transferred
     \cup (IF ~r.closed \/ r.result \in {"hang", "panic"} THEN {"end"} ELSE {})                \* the stream ends
     \cup (IF r.missing > 0 /\ ~(r.result = "err" \/ (~r.noop /\ HasError(r.stream))) THEN {"silent"} ELSE {})   \* incomplete => error
RECURSIVE SetToSeq(_)
SetToSeq(S) == IF S = {} THEN <<>> ELSE LET x == CHOOSE x \in S : TRUE IN <<x>> \o SetToSeq(S \ {x})
VARIABLE l
Init == l = 1
Step == l <= Len(Rec) /\ PrintT(<<"VERDICT", ToJson([id |-> Rec[l].id, viol |-> SetToSeq(Clauses(Rec[l]))])>>) /\ l' = l + 1
Spec == Init /\ [][Step]_l
AllRead == TLCGet("stats").diameter - 1 = Len(Rec)
=============================================================================
