SPECIFICATION TSpec
CONSTANTS
  MaxL = 64
  BlockSizes = {}
  Deviations = {}
INVARIANT Report
CHECK_DEADLOCK FALSE
