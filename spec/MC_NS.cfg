SPECIFICATION Spec
CONSTANT Scenarios <- MCScenarios
INVARIANTS InvC03 InvC08 InvC16 InvDirBeforeChild InvOutcome EmitPrediction
PROPERTY Termination
CHECK_DEADLOCK TRUE
