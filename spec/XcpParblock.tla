---------------------------- MODULE XcpParblock ----------------------------
(***************************************************************************)
(* Control plane of the parblock driver (libxcp/src/drivers/parblock.rs),  *)
(* its thread pool (blocking_threadpool, bounded job queue) and the main   *)
(* thread of the binary (src/main.rs:147-183).                             *)
(*                                                                         *)
(* Threads: main, copy thread (driver.copy), walker, ONE dispatcher,       *)
(* W pool workers.  One action per critical section:                       *)
(*   WalkVisit/WalkDone   tree_walker                                      *)
(*   DispRecv             `for op in file_q`                               *)
(*   DispOpen             CopyHandle::new + try_reflink                    *)
(*   DispQueue            pool.execute(block job): blocks while the pool   *)
(*                        queue holds Q jobs (back-pressure); each job     *)
(*                        holds one reference to the handle and one clone  *)
(*                        of the updater                                   *)
(*   DispQueue (end)      the dispatcher gives up its reference            *)
(*                        (Arc::into_inner); if it was the last one the    *)
(*                        dispatcher finalises the file                    *)
(*   PoolTake/PoolCopy    a worker runs one block job (copy_file_offset)   *)
(*   PoolDrop             the job gives up its reference; last one =>      *)
(*                        finalise on that worker, BEFORE its Copied update*)
(*   FinStep(t)           owner, permissions(+xattr), timestamps, fsync    *)
(*   DispJoin             copy_pool.join()                                 *)
(*   CopyJoinW/CopyJoinD  copy(): join walker, then dispatcher             *)
(*   MainRecv/MainClosed/MainJoin                                          *)
(* A single fault (chosen in Init) makes exactly one action fail.          *)
(***************************************************************************)
EXTENDS Naturals, Sequences, FiniteSets, TLC

CONSTANTS Ops,        \* sequence of records [k |-> "dir"|"file"|"link", f |-> file id, nb |-> #blocks]
          W,          \* pool workers
          Q,          \* pool queue bound
          Faults,     \* set of fault points that may be chosen (at most one per behaviour)
          Deviations  \* {"FinSwallow"}: finalisation errors only logged (pinned tree; repaired by fix de165f3)

Files == { Ops[i].f : i \in { j \in 1..Len(Ops) : Ops[j].k = "file" } }
NB(f) == (CHOOSE i \in 1..Len(Ops) : Ops[i].k = "file" /\ Ops[i].f = f) \* index
NBlocks(f) == Ops[NB(f)].nb
Workers == 1..W
FinSteps == 4   \* 1 owner (failure tolerated), 2 permissions, 3 timestamps, 4 fsync

VARIABLES wks, fault,        \* chosen fault point or "none"
          wk,           \* walker: index of next op, or "ok"/"err"
          wq,           \* work queue (seq of op indices)
          txOpen,       \* walker's sender alive
          rxOpen,       \* dispatcher's receiver alive
          d,            \* dispatcher record [pc, op, b]
          pq,           \* pool queue: seq of <<f,b>>
          poolOpen,     \* pool handle alive (dispatcher not exited)
          pw,           \* worker -> [st, f, b]
          rc,           \* Arc count per file
          opened,       \* file -> BOOLEAN (handle exists)
          blk,          \* file -> [1..nb -> {"none","queued","run","ok","fail"}]
          fin,          \* file -> 0..FinSteps+1  (FinSteps+1 = closed)
          finBy,        \* file -> "none" | thread id currently finalising
          finErr,       \* file -> BOOLEAN (a finalise step failed)
          chan,         \* status channel: seq of "S","C","E"
          sizeSum, copiedSum,
          holders,      \* live clones of the updater
          cp,           \* copy thread pc: "joinW","joinD","ok","err"
          mn,           \* main pc: "loop","join","exit0","exit1"
          mi            \* main's read index into chan

vars == <<wks, fault, wk, wq, txOpen, rxOpen, d, pq, poolOpen, pw, rc, opened, blk, fin, finBy, finErr,
          chan, sizeSum, copiedSum, holders, cp, mn, mi>>

Running == mn \in {"loop","join"}    \* process alive

Init ==
  /\ fault \in Faults \cup {<<"none">>}
  /\ wk = 1 /\ wks = "run" /\ wq = <<>> /\ txOpen = TRUE /\ rxOpen = TRUE
  /\ d = [pc |-> "recv", op |-> 0, b |-> 0]
  /\ pq = <<>> /\ poolOpen = TRUE
  /\ pw = [w \in Workers |-> [st |-> "idle", f |-> 0, b |-> 0, res |-> "ok"]]
  /\ rc = [f \in Files |-> 0]
  /\ opened = [f \in Files |-> FALSE]
  /\ blk = [f \in Files |-> [b \in 1..NBlocks(f) |-> "none"]]
  /\ fin = [f \in Files |-> 0] /\ finBy = [f \in Files |-> 0] /\ finErr = [f \in Files |-> FALSE]
  /\ chan = <<>> /\ sizeSum = 0 /\ copiedSum = 0
  /\ holders = 3     \* copy thread, walker, dispatcher
  /\ cp = "joinW" /\ mn = "loop" /\ mi = 0

Send(u) == chan' = Append(chan, u)

(* ---------------- walker ---------------- *)
WalkVisit ==
  /\ Running /\ wks = "run" /\ wk \in 1..Len(Ops)
  /\ LET o == Ops[wk] IN
     \/ /\ o.k = "dir"
        /\ IF fault = <<"mkdir", wk>>
             THEN wks' = "err" /\ wk' = wk /\ txOpen' = FALSE /\ holders' = holders - 1
             ELSE wks' = wks /\ wk' = wk + 1 /\ UNCHANGED <<txOpen, holders>>
        /\ UNCHANGED <<wq, chan, sizeSum>>
     \/ /\ o.k = "file"
        /\ IF ~rxOpen   \* send on a disconnected channel fails
             THEN wks' = "err" /\ wk' = wk /\ txOpen' = FALSE /\ holders' = holders - 1
                  /\ Send("S") /\ sizeSum' = sizeSum + o.nb /\ UNCHANGED wq
             ELSE wks' = wks /\ wk' = wk + 1 /\ Send("S") /\ sizeSum' = sizeSum + o.nb
                  /\ wq' = Append(wq, wk) /\ UNCHANGED <<txOpen, holders>>
     \/ /\ o.k = "link"
        /\ IF ~rxOpen
             THEN wks' = "err" /\ wk' = wk /\ txOpen' = FALSE /\ holders' = holders - 1 /\ UNCHANGED wq
             ELSE wks' = wks /\ wk' = wk + 1 /\ wq' = Append(wq, wk) /\ UNCHANGED <<txOpen, holders>>
        /\ UNCHANGED <<chan, sizeSum>>
  /\ UNCHANGED <<fault, rxOpen, d, pq, poolOpen, pw, rc, opened, blk, fin, finBy, finErr, copiedSum, cp, mn, mi>>

WalkDone ==
  /\ Running /\ wks = "run" /\ wk = Len(Ops) + 1
  /\ wks' = "ok" /\ wk' = wk /\ txOpen' = FALSE /\ holders' = holders - 1
  /\ UNCHANGED <<fault, wq, rxOpen, d, pq, poolOpen, pw, rc, opened, blk, fin, finBy, finErr, chan, sizeSum, copiedSum, cp, mn, mi>>

(* ---------------- finalisation (runs on whichever thread dropped the last ref) ---------------- *)
\* A thread t is "busy finalising f" while finBy[f] = t; it must finish before doing anything else.
BusyFin(t) == \E f \in Files : finBy[f] = t

DropRef(f, t) ==   \* returns the updates for rc/finBy when thread t drops one reference to f
  /\ rc' = [rc EXCEPT ![f] = @ - 1]
  /\ IF rc[f] = 1 THEN finBy' = [finBy EXCEPT ![f] = t] ELSE UNCHANGED finBy

FinStep(t) ==      \* finalise_copy(): steps in order; the first failing step ends it (`?`)
  /\ Running
  /\ \E f \in Files :
       /\ finBy[f] = t
       /\ IF fin[f] < FinSteps
            THEN LET k == fin[f] + 1
                     failed == fault = <<"fin", f, k>> /\ k # 1          \* step 1 (ownership) may fail silently: documented
                 IN
                 IF failed /\ "FinSwallow" \notin Deviations
                   THEN \* the error is returned: a job reports it as an Error update, the dispatcher fails (DispFail)
                        /\ finErr' = [finErr EXCEPT ![f] = TRUE]
                        /\ fin' = [fin EXCEPT ![f] = FinSteps + 1] /\ finBy' = [finBy EXCEPT ![f] = 0]
                        /\ opened' = [opened EXCEPT ![f] = FALSE]
                        /\ IF t = W + 1
                             THEN /\ Send("E") /\ d' = [d EXCEPT !.pc = "err"] /\ rxOpen' = FALSE /\ poolOpen' = FALSE
                                  /\ holders' = holders - 1 /\ UNCHANGED pw
                             ELSE /\ pw' = [pw EXCEPT ![t].res = "fail"] /\ UNCHANGED <<chan, d, rxOpen, poolOpen, holders>>
                   ELSE /\ fin' = [fin EXCEPT ![f] = k]
                        /\ finErr' = [finErr EXCEPT ![f] = @ \/ failed]
                        /\ UNCHANGED <<finBy, opened, chan, d, rxOpen, poolOpen, holders, pw>>
            ELSE /\ fin' = [fin EXCEPT ![f] = FinSteps + 1]    \* close both descriptors
                 /\ finBy' = [finBy EXCEPT ![f] = 0]
                 /\ opened' = [opened EXCEPT ![f] = FALSE]
                 /\ UNCHANGED <<finErr, chan, d, rxOpen, poolOpen, holders, pw>>
  /\ UNCHANGED <<wks, fault, wk, wq, txOpen, pq, rc, blk, sizeSum, copiedSum, cp, mn, mi>>

(* ---------------- dispatcher ---------------- *)
DispRecv ==
  /\ Running /\ d.pc = "recv" /\ ~BusyFin(W+1)
  /\ IF wq # <<>>
       THEN /\ LET i == Head(wq) IN
               d' = [pc |-> IF Ops[i].k = "file" THEN "open" ELSE "link", op |-> i, b |-> 0]
            /\ wq' = Tail(wq)
       ELSE /\ ~txOpen                      \* closed and drained
            /\ d' = [d EXCEPT !.pc = "join"]
            /\ UNCHANGED wq
  /\ UNCHANGED <<wks, fault, wk, txOpen, rxOpen, pq, poolOpen, pw, rc, opened, blk, fin, finBy, finErr, chan, sizeSum, copiedSum, holders, cp, mn, mi>>

DispFail ==   \* common tail: send Error, exit with Err
  /\ Send("E") /\ d' = [d EXCEPT !.pc = "err"] /\ rxOpen' = FALSE /\ poolOpen' = FALSE
  /\ holders' = holders - 1

DispLink ==
  /\ Running /\ d.pc = "link"
  /\ IF fault = <<"link", d.op>>
       THEN DispFail
       ELSE d' = [pc |-> "recv", op |-> 0, b |-> 0] /\ UNCHANGED <<chan, rxOpen, poolOpen, holders>>
  /\ UNCHANGED <<wks, fault, wk, wq, txOpen, pq, pw, rc, opened, blk, fin, finBy, finErr, sizeSum, copiedSum, cp, mn, mi>>

DispOpen ==
  /\ Running /\ d.pc = "open"
  /\ LET f == Ops[d.op].f IN
     IF fault = <<"open", f>>
       THEN DispFail /\ UNCHANGED <<opened, rc>>
       ELSE /\ opened' = [opened EXCEPT ![f] = TRUE]
            /\ rc' = [rc EXCEPT ![f] = 1]
            /\ d' = [d EXCEPT !.pc = "queue", !.b = 1]
            /\ UNCHANGED <<chan, rxOpen, poolOpen, holders>>
  /\ UNCHANGED <<wks, fault, wk, wq, txOpen, pq, pw, blk, fin, finBy, finErr, sizeSum, copiedSum, cp, mn, mi>>

DispQueue ==
  /\ Running /\ d.pc = "queue"
  /\ LET f == Ops[d.op].f IN
     IF d.b <= NBlocks(f)
       THEN /\ Len(pq) < Q                              \* back-pressure
            /\ pq' = Append(pq, <<f, d.b>>)
            /\ blk' = [blk EXCEPT ![f][d.b] = "queued"]
            /\ rc' = [rc EXCEPT ![f] = @ + 1]
            /\ holders' = holders + 1
            /\ d' = [d EXCEPT !.b = @ + 1]
            /\ UNCHANGED finBy
       ELSE /\ DropRef(f, W+1)                          \* harc dropped at end of queue_file_blocks
            /\ d' = [pc |-> "recv", op |-> 0, b |-> 0]
            /\ UNCHANGED <<pq, blk, holders>>
  /\ UNCHANGED <<wks, fault, wk, wq, txOpen, rxOpen, poolOpen, pw, opened, fin, finErr, chan, sizeSum, copiedSum, cp, mn, mi>>

DispJoin ==
  /\ Running /\ d.pc = "join" /\ ~BusyFin(W+1)
  /\ pq = <<>> /\ \A w \in Workers : pw[w].st = "idle"
  /\ d' = [d EXCEPT !.pc = "ok"] /\ poolOpen' = FALSE /\ rxOpen' = FALSE /\ holders' = holders - 1
  /\ UNCHANGED <<wks, fault, wk, wq, txOpen, pq, pw, rc, opened, blk, fin, finBy, finErr, chan, sizeSum, copiedSum, cp, mn, mi>>

(* ---------------- pool workers ---------------- *)
PoolTake(w) ==
  /\ Running /\ pw[w].st = "idle" /\ pq # <<>>
  /\ LET j == Head(pq) IN
       /\ pw' = [pw EXCEPT ![w] = [st |-> "copy", f |-> j[1], b |-> j[2], res |-> "ok"]]
       /\ blk' = [blk EXCEPT ![j[1]][j[2]] = "run"]
  /\ pq' = Tail(pq)
  /\ UNCHANGED <<wks, fault, wk, wq, txOpen, rxOpen, d, poolOpen, rc, opened, fin, finBy, finErr, chan, sizeSum, copiedSum, holders, cp, mn, mi>>

PoolCopy(w) ==
  /\ Running /\ pw[w].st = "copy"
  /\ LET f == pw[w].f  b == pw[w].b IN
     IF fault = <<"blk", f, b>>
       THEN /\ blk' = [blk EXCEPT ![f][b] = "fail"] /\ pw' = [pw EXCEPT ![w].st = "drop", ![w].res = "fail"]
       ELSE /\ blk' = [blk EXCEPT ![f][b] = "ok"] /\ pw' = [pw EXCEPT ![w].st = "drop"]
  /\ UNCHANGED <<wks, fault, wk, wq, txOpen, rxOpen, d, pq, poolOpen, rc, opened, fin, finBy, finErr, chan, sizeSum, copiedSum, holders, cp, mn, mi>>

PoolDrop(w) ==
  /\ Running /\ pw[w].st = "drop"
  /\ DropRef(pw[w].f, w)
  /\ pw' = [pw EXCEPT ![w].st = "fin"]
  /\ UNCHANGED <<wks, fault, wk, wq, txOpen, rxOpen, d, pq, poolOpen, opened, blk, fin, finErr, chan, sizeSum, copiedSum, holders, cp, mn, mi>>

PoolIdle(w) ==      \* after any finalisation it had to do, the job sends its one update and ends (its updater clone dies with it)
  /\ Running /\ pw[w].st = "fin" /\ ~BusyFin(w)
  /\ IF pw[w].res = "ok" THEN Send("C") /\ copiedSum' = copiedSum + 1 ELSE Send("E") /\ UNCHANGED copiedSum
  /\ holders' = holders - 1
  /\ pw' = [pw EXCEPT ![w] = [st |-> "idle", f |-> 0, b |-> 0, res |-> "ok"]]
  /\ UNCHANGED <<wks, fault, wk, wq, txOpen, rxOpen, d, pq, poolOpen, rc, opened, blk, fin, finBy, finErr, sizeSum, cp, mn, mi>>

(* ---------------- copy thread ---------------- *)
CopyJoinW ==
  /\ Running /\ cp = "joinW" /\ wks \in {"ok","err"}
  /\ IF wks = "ok" THEN cp' = "joinD" /\ UNCHANGED holders
                  ELSE cp' = "err" /\ holders' = holders - 1
  /\ UNCHANGED <<wks, fault, wk, wq, txOpen, rxOpen, d, pq, poolOpen, pw, rc, opened, blk, fin, finBy, finErr, chan, sizeSum, copiedSum, mn, mi>>

CopyJoinD ==
  /\ Running /\ cp = "joinD" /\ d.pc \in {"ok","err"}
  /\ cp' = d.pc /\ holders' = holders - 1
  /\ UNCHANGED <<wks, fault, wk, wq, txOpen, rxOpen, d, pq, poolOpen, pw, rc, opened, blk, fin, finBy, finErr, chan, sizeSum, copiedSum, mn, mi>>

(* ---------------- main ---------------- *)
MainRecv ==
  /\ mn = "loop" /\ mi < Len(chan)
  /\ mi' = mi + 1
  /\ mn' = IF chan[mi + 1] = "E" THEN "exit1" ELSE "loop"
  /\ UNCHANGED <<wks, fault, wk, wq, txOpen, rxOpen, d, pq, poolOpen, pw, rc, opened, blk, fin, finBy, finErr, chan, sizeSum, copiedSum, holders, cp>>

MainClosed ==
  /\ mn = "loop" /\ mi = Len(chan) /\ holders = 0
  /\ mn' = "join"
  /\ UNCHANGED <<wks, fault, wk, wq, txOpen, rxOpen, d, pq, poolOpen, pw, rc, opened, blk, fin, finBy, finErr, chan, sizeSum, copiedSum, holders, cp, mi>>

MainJoin ==
  /\ mn = "join" /\ cp \in {"ok","err"}
  /\ mn' = IF cp = "ok" THEN "exit0" ELSE "exit1"
  /\ UNCHANGED <<wks, fault, wk, wq, txOpen, rxOpen, d, pq, poolOpen, pw, rc, opened, blk, fin, finBy, finErr, chan, sizeSum, copiedSum, holders, cp, mi>>

Done == mn \in {"exit0","exit1"} /\ UNCHANGED vars

Walker == WalkVisit \/ WalkDone
Disp == DispRecv \/ DispLink \/ DispOpen \/ DispQueue \/ DispJoin \/ FinStep(W+1)
Pool(w) == PoolTake(w) \/ PoolCopy(w) \/ PoolDrop(w) \/ PoolIdle(w) \/ FinStep(w)
CopyT == CopyJoinW \/ CopyJoinD
Main == MainRecv \/ MainClosed \/ MainJoin

Next == Walker \/ Disp \/ (\E w \in Workers : Pool(w)) \/ CopyT \/ Main \/ Done

Spec == Init /\ [][Next]_vars /\ WF_vars(Walker) /\ WF_vars(Disp) /\ (\A w \in Workers : WF_vars(Pool(w)))
             /\ WF_vars(CopyT) /\ WF_vars(Main)

(* ---------------- properties ---------------- *)
AllTerminal(f) == \A b \in 1..NBlocks(f) : blk[f][b] \in {"ok","fail"}
DispStillQueueing(f) == d.pc = "queue" /\ Ops[d.op].f = f /\ d.b <= NBlocks(f)

MetaAfterLastWrite ==      \* C06 / C10 / C18
  \A f \in Files : (fin[f] > 0 \/ finBy[f] # 0) => AllTerminal(f) /\ ~DispStillQueueing(f)

PrefixOK == copiedSum <= sizeSum     \* C12

OpenBound == Cardinality({f \in Files : opened[f]}) <= Q + W + 1    \* C20

SyncAfterWrites == \A f \in Files : fin[f] >= FinSteps => AllTerminal(f)     \* C18 (fsync is step 4)

ExitZeroComplete ==        \* C04
  mn = "exit0" => /\ \A f \in Files : /\ \A b \in 1..NBlocks(f) : blk[f][b] = "ok"
                                      /\ fin[f] = FinSteps + 1
                                      /\ ~finErr[f]
                  /\ fault \notin {<<"mkdir", i>> : i \in 1..Len(Ops)} \cup {<<"link", i>> : i \in 1..Len(Ops)}

NoFaultNoFail == fault = <<"none">> => mn # "exit1"     \* determinism of the exit status

Termination == <>(mn \in {"exit0","exit1"})
ChannelCloses == <>(mn = "exit1" \/ holders = 0)     \* C12 / C07, library view
=============================================================================
