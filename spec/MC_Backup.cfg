SPECIFICATION Spec
CONSTANTS
  Names <- MCNames
  Seeds <- MCSeeds
  MaxSteps = 3
  Deviations = {}
INVARIANTS NoVersionLost KillSafe EmitHistory
PROPERTY BackupsImmutable
CHECK_DEADLOCK FALSE
