----------------------------- MODULE Trace_Merge ----------------------------
(* Verdicts on what the real libfs functions returned: merge_extents on enumerated lists (records with kind "merge"),    *)
(* and map_extents / merge / segment walks on real files (kind "file": every non-zero byte run must lie inside a range). *)
EXTENDS XcpMerge, IOUtils
Rec == ndJsonDeserialize(IOEnv.TRACE)

Inside(run, ranges) == \E i \in 1..Len(ranges) : ranges[i][1] <= run[1] /\ run[2] <= ranges[i][2]
CoversData(nz, ranges) == \A j \in 1..Len(nz) : Inside(nz[j], ranges)
OrderedDisjoint(l) == \A i \in 1..(Len(l) - 1) : l[i][1] < l[i][2] /\ l[i][2] <= l[i + 1][1]
Good(nz, ranges) == CoversData(nz, ranges) /\ OrderedDisjoint(ranges)

Verdict(r) ==
  IF r.kind = "merge"
    THEN [id |-> r.id, ok |-> Contract(r.inp, r.out), same |-> (r.out = Merge(r.inp)), what |-> "merge"]
    ELSE [id |-> r.id,
          ok |-> /\ (r.hasExtents => Good(r.nz, r.extents) /\ Good(r.nz, r.merged))
                 /\ Good(r.nz, r.segments)
                 \* paging (XcpFiemap.Complete): what map_extents assembled page by page is the kernel's list obtained in ONE request
                 /\ (r.hasExtents /\ r.kextKnown => r.extents = r.kext),
          same |-> TRUE, what |-> "file"]
VARIABLE l
TInit == l = 1 /\ list = <<>>
TStep == /\ l <= Len(Rec) /\ PrintT(<<"VERDICT", ToJson(Verdict(Rec[l]))>>) /\ l' = l + 1 /\ UNCHANGED list
TSpec == TInit /\ [][TStep]_<<l, list>>
AllRead == TLCGet("stats").diameter - 1 = Len(Rec)
=============================================================================
