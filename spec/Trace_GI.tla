------------------------------- MODULE Trace_GI ------------------------------
(* C17 verdicts: the set of entries found below the destination root after `xcp --gitignore` equals Copied(patterns, tree). *)
(* record: [id, pats, obs (sequence of paths found), gitignore (flag given)]                                                 *)
EXTENDS XcpGitignore, IOUtils
Rec == ndJsonDeserialize(IOEnv.TRACE)
ToSet(s) == { s[i] : i \in 1..Len(s) }
Verdict(r) ==
  LET want == IF r.gitignore THEN { e.path : e \in Copied(r.pats, Tree) } ELSE { e.path : e \in Tree }
      got == ToSet(r.obs)
  IN [id |-> r.id, ok |-> got = want, missing |-> Cardinality(want \ got), extra |-> Cardinality(got \ want)]
VARIABLE l
TInit == l = 1 /\ pl = <<>>
TStep == l <= Len(Rec) /\ PrintT(<<"VERDICT", ToJson(Verdict(Rec[l]))>>) /\ l' = l + 1 /\ UNCHANGED pl
TSpec == TInit /\ [][TStep]_<<l, pl>>
AllRead == TLCGet("stats").diameter - 1 = Len(Rec)
=============================================================================
