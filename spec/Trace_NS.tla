------------------------------ MODULE Trace_NS ------------------------------
(***************************************************************************)
(* Layer-B verdicts on observations of the real program, name-space plane. *)
(* Input (NDJSON, env TRACE): one record per real run                      *)
(*   [sc |-> scenario, driver, exit (-9 = killed), before, after]          *)
(* before/after = sequences of [p, k, c, md] (md = metadata digest).       *)
(* Output: one VERDICT line per record listing the contract clauses that   *)
(* the observation violates, plus what the specification predicted.        *)
(***************************************************************************)
EXTENDS XcpNSOps, Json, IOUtils, Bitwise

Rec == ndJsonDeserialize(IOEnv.TRACE)

ObsView(es) == { [p |-> es[i].p, k |-> es[i].k, c |-> es[i].c] : i \in 1..Len(es) }
ObsFull(es) == { es[i] : i \in 1..Len(es) }
ObsAt(es, p) == { es[i] : i \in { j \in 1..Len(es) : es[j].p = p } }

\* the observed `after` as a model state is only needed through views
\* everything that depends on the scenario only is bound once (TLC evaluates a LET definition at most once per use site)
Clauses(r) ==
  LET s == r.sc
      ex == r.exit
      av == ObsView(r.after)
      rej == Rejected(s)
      vis == IF rej THEN {} ELSE Visits(s)
      ref == IF rej THEN Fail(FS0(s)) ELSE RefExec(Ok(FS0(s)), s, vis)
      exp == ref.fs
      expView == View(exp)
      unchanged(p) == ObsAt(r.before, p) = ObsAt(r.after, p)
      sameKind(p) == ObsView(SelectSeq(r.before, LAMBDA x : x.p = p)) = ObsView(SelectSeq(r.after, LAMBDA x : x.p = p))
      mapped == { Resolve(exp, v.to, v.k = "file") : v \in { w \in vis : ~w.err } }
      prot == UnderSources(s) \cup { e \in FS0(s) : e.p \notin mapped }
      \* a directory that merely contains a mapped destination legitimately gets a new mtime: compare kind only
      parentOfMapped(p) == \E q \in mapped : ~IsErr(q) /\ IsPrefix(p, q) /\ p # q
      collides == ~rej /\ \E v \in vis : v.k # "dir" /\ ~v.err /\ ExistsL(FS0(s), v.to)
      c02 == (ex = 0) => av = expView
      c03 == \A e \in prot : IF e.k = "dir" /\ parentOfMapped(e.p) THEN sameKind(e.p) ELSE unchanged(e.p)
      c08 == s.n => (\A e \in FS0(s) : IF e.k = "dir" THEN sameKind(e.p) ELSE unchanged(e.p)) /\ (collides => ex # 0)
      c13 == s.L => /\ (ex = 0 => (\A e \in av : e.k = "link" => e \in View(FS0(s))) /\ av = expView)
                    /\ ((~rej /\ \E v \in vis : v.err /\ v.k = "none") => ex # 0)
                    \* obligation form: without injected faults, a tree whose links all resolve IS copied (links followed)
                    /\ ((~r.faulted /\ ~rej /\ ref.ok) => ex <= 0)
      modeAt(es, p) == LET S == { es[i].m : i \in { j \in 1..Len(es) : es[j].p = p } } IN IF S = {} THEN -1 ELSE CHOOSE m \in S : TRUE
      nodeOk(v) ==           \* same type and device number, source permission bits limited by the umask
        LET q == Resolve(exp, v.to, FALSE)
            sm == modeAt(r.before, Resolve(FS0(s), v.from, FALSE))
        IN  /\ ~IsErr(q)
            /\ [p |-> q, k |-> v.k, c |-> v.c] \in av
            /\ sm >= 0 /\ modeAt(r.after, q) = sm - (sm & r.umask)
      c14 == /\ (~rej /\ \E v \in vis : v.k = "blk") => ex # 0
             /\ (ex = 0 /\ ~rej) => \A v \in vis : (Special(v.k) /\ ~v.err) => nodeOk(v)
             \* the statement is an obligation, not only a condition on exit 0: in a run without injected faults that the
             \* reference execution completes, every special node IS created (replacing an existing entry)
             /\ (~r.faulted /\ ~rej /\ ref.ok /\ ex > 0) => \A v \in vis : (Special(v.k) /\ ~v.err) => nodeOk(v)
      \* "source identical to destination": a single file whose mapped destination is the same inode under another name
      selfCopy == ~rej /\ Cardinality(vis) = 1 /\ \E v \in vis : v.k = "file" /\ SameFile(FS0(s), v.from, v.to)
      c16 == (rej \/ selfCopy) => ex # 0 /\ ObsFull(r.before) = ObsFull(r.after)
  IN  [viol |-> (IF c02 THEN {} ELSE {"C02"}) \cup (IF c03 THEN {} ELSE {"C03"}) \cup (IF c08 THEN {} ELSE {"C08"})
                \cup (IF c13 THEN {} ELSE {"C13"}) \cup (IF c14 THEN {} ELSE {"C14"}) \cup (IF c16 THEN {} ELSE {"C16"}),
       expectOk |-> ref.ok, rejected |-> rej]

RECURSIVE SetToSeq(_)
SetToSeq(S) == IF S = {} THEN <<>> ELSE LET x == CHOOSE x \in S : TRUE IN <<x>> \o SetToSeq(S \ {x})

VARIABLE l
Init == l = 1
Step ==
  /\ l <= Len(Rec)
  /\ LET r == Rec[l] IN
     LET c == Clauses(r) IN
     PrintT(<<"VERDICT", ToJson([id |-> r.sc.id, driver |-> r.driver, run |-> r.run, viol |-> SetToSeq(c.viol),
                                 expectOk |-> c.expectOk, rejected |-> c.rejected, exit |-> r.exit])>>)
  /\ l' = l + 1
Spec == Init /\ [][Step]_l
AllRead == TLCGet("stats").diameter - 1 = Len(Rec)
=============================================================================
