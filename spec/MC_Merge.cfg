SPECIFICATION Spec
CONSTANTS
  N = 7
  K = 3
  EmitLists = FALSE
INVARIANTS MergeMeetsContract Emit
CHECK_DEADLOCK FALSE
