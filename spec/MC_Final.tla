------------------------------ MODULE MC_Final -------------------------------
EXTENDS XcpFinal
CodeOrder == <<"owner", "perms", "times", "fsync">>      \* libxcp/src/operations.rs finalise_copy (after fix 430e2eb)
PinnedOrder == <<"perms", "times", "owner", "fsync">>    \* the pinned tree: chmod before chown (deviation)
=============================================================================
