------------------------------- MODULE XcpChan -------------------------------
(***************************************************************************)
(* ChannelUpdater (libxcp/src/feedback.rs): Copied updates are batched -    *)
(* an update is forwarded only when the running total crosses a block-size *)
(* boundary, and then only with THIS call's byte count.  Concurrent send() *)
(* calls interleave at the atomic fetch_add.  Claim (C12): what the client *)
(* receives never exceeds what was really copied, and never what was       *)
(* announced.                                                              *)
(***************************************************************************)
EXTENDS Naturals, Sequences, TLC
CONSTANTS BSize, MaxTotal, MaxChunk
VARIABLES sent,        \* the AtomicU64: bytes reported by workers so far
          delivered,   \* sum of the Copied updates put on the channel
          announced    \* sum of Size updates (always forwarded)
vars == <<sent, delivered, announced>>
Init == sent = 0 /\ delivered = 0 /\ announced \in 0..MaxTotal
SendCopied(n) ==
  /\ sent + n <= announced                 \* workers only report bytes of announced files (control-plane invariant PrefixOK)
  /\ sent' = sent + n
  /\ delivered' = IF (sent + n) \div BSize > sent \div BSize THEN delivered + n ELSE delivered
  /\ UNCHANGED announced
Next == \E n \in 1..MaxChunk : SendCopied(n)
Spec == Init /\ [][Next]_vars
NeverMoreThanCopied == delivered <= sent
NeverMoreThanAnnounced == delivered <= announced
=============================================================================
