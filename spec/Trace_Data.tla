----------------------------- MODULE Trace_Data -----------------------------
(***************************************************************************)
(* Layer-B verdicts on single-file copies by the real program.             *)
(* One NDJSON record per run:                                              *)
(*  [id, len, cell, sruns, exit, dlen, druns, dtail, sblocks, dblocks,     *)
(*   smap, dmap, holesDetectable, slack, ...]                              *)
(* len = source length in cells, cell = bytes per cell, dcells = observed  *)
(* destination cells (k = holds the pattern of source cell k, 0 = zeros,   *)
(* negative = pattern of another cell, 999 = mixed), dlen in bytes.        *)
(***************************************************************************)
EXTENDS Integers, Sequences, FiniteSets, TLC, Json, IOUtils

Rec == ndJsonDeserialize(IOEnv.TRACE)
ToSet(s) == { s[i] : i \in 1..Len(s) }

\* Cell contents are compared as maximal runs <<class, first, last>> (1-based cell indices): class "D" = the cell holds
\* the byte pattern of exactly this index of the source, "Z" = all zero, anything else = foreign / misplaced / mixed bytes.
\* sruns is the source's layout (data cells "D", holes "Z"), druns what was read back from the destination.
\* C01 / C05: exit 0 => same length and same bytes, nothing of the prior destination
Exact(r) == r.exit = 0 => /\ r.dlen = r.len * r.cell + r.tail
                           /\ r.druns = r.sruns
                           /\ r.dtailc = (IF r.tail > 0 THEN r.len + 1 ELSE 0)
\* C11: holes stay holes - allocation within slack of the source's, data map contained in the source's (block rounded)
Within(seg, segs, blk) == \E j \in 1..Len(segs) : (segs[j][1] \div blk) * blk <= seg[1] /\ seg[2] <= ((segs[j][2] + blk - 1) \div blk) * blk
Sparse(r) == (r.exit = 0 /\ r.holesDetectable) =>
                /\ r.dblocks <= r.sblocks + r.slackBlocks
                /\ \A i \in 1..Len(r.dmap) : Within(r.dmap[i], r.smap, r.fsblock)

\* C11, growth form: the same layout with every hole four times larger allocates the same (r.growBase = blocks of the base run)
Growth(r) == (r.exit = 0 /\ r.holesDetectable /\ r.growBase >= 0) =>
                r.dblocks <= r.growBase + r.slackBlocks /\ r.growBase <= r.dblocks + r.slackBlocks

Clauses(r) == (IF Growth(r) THEN {} ELSE {"GROWTH"}) \cup (IF Exact(r) THEN {} ELSE {"EXACT"}) \cup (IF Sparse(r) THEN {} ELSE {"SPARSE"})
RECURSIVE SetToSeq(_)
SetToSeq(S) == IF S = {} THEN <<>> ELSE LET x == CHOOSE x \in S : TRUE IN <<x>> \o SetToSeq(S \ {x})

VARIABLE l
Init == l = 1
Step == /\ l <= Len(Rec)
        /\ PrintT(<<"VERDICT", ToJson([id |-> Rec[l].id, viol |-> SetToSeq(Clauses(Rec[l]))])>>)
        /\ l' = l + 1
Spec == Init /\ [][Step]_l
AllRead == TLCGet("stats").diameter - 1 = Len(Rec)
=============================================================================
