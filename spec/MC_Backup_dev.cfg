SPECIFICATION Spec
CONSTANTS
  Names <- MCNames
  Seeds <- MCSeeds
  MaxSteps = 3
  Deviations = {"LexMax"}
INVARIANTS NoVersionLost KillSafe
PROPERTY BackupsImmutable
CHECK_DEADLOCK FALSE
