------------------------------ MODULE XcpData -------------------------------
(***************************************************************************)
(* Data plane of xcp: how ONE regular file is copied.                      *)
(*                                                                         *)
(*   CopyHandle::new      libxcp/src/operations.rs   Create, Allocate      *)
(*   try_reflink          operations.rs / libfs reflink()      Clone       *)
(*   copy_file (parfile)  copy_sparse / copy_bytes, cursor based           *)
(*   queue_file_blocks    drivers/parblock.rs: extents -> ranges -> block  *)
(*                        jobs at explicit offsets, executed in any order  *)
(*   copy_file_bytes / copy_file_offset / user-space loops  libfs          *)
(*                                                                         *)
(* A file is a sequence of CELLS. Source cell i holds the value i if it is *)
(* data and 0 if it is a hole; `salloc` is the set of data cells.  The     *)
(* environment is explicit: how many cells each kernel copy/read moves     *)
(* (any count from 1 to the request), whether the in-kernel copy exists,   *)
(* how the clone request is answered, whether extents can be mapped and    *)
(* how the kernel splits allocated runs into extents.                      *)
(***************************************************************************)
EXTENDS Integers, Sequences, FiniteSets, TLC

CONSTANTS MaxL,           \* longest file, in cells
          BlockSizes,     \* block sizes explored, in cells (MaxL + 1 stands for "larger than the file", e.g. --no-progress)
          Deviations      \* named departures from the intended design (see below); {} for the properties
(* Deviations:                                                             *)
(*  "BlockJobSingleShot"  a block job issues ONE kernel copy and ignores a *)
(*                        short count (pinned tree; repaired by fix 00a9bd8)*)
(*  "NoTruncate"          destination opened without truncation            *)
(*  "NoAllocate"          destination not extended to the source length    *)

VARIABLES len, salloc,            \* the source: length and set of data cells (fixed)
          driver, bs, reflink, kcopy,   \* configuration and kernel capability (fixed)
          dst, dalloc,            \* destination content (sequence of cell values) and allocated cells
          pc,                     \* control state of the copying thread (worker or dispatcher)
          pos, segEnd, cur, want, \* sparse walk position, current segment end, shared cursor, cells still wanted by copy_bytes
          exts, jobs,             \* parblock: extents still to queue; block jobs [off, n, done] in flight
          result,                 \* "run" | "ok" | "err"
          clones, cloneAns, dataOps,    \* observers: clone requests issued, how it was answered, data-moving calls issued
          mapped                        \* parblock: "na" | "yes" | "no" - could extents be mapped

vars == <<len, salloc, driver, bs, reflink, kcopy, dst, dalloc, pc, pos, segEnd, cur, want, exts, jobs, result,
          clones, cloneAns, dataOps, mapped>>

cloneOk == cloneAns = "ok"
Cells == 1..len
Src == [i \in 1..len |-> IF i \in salloc THEN i ELSE 0]
Sparse == salloc # Cells                       \* probably_sparse(): fewer blocks than the size needs
Min(a, b) == IF a < b THEN a ELSE b

Junk == 99                                     \* content of a previous destination
Priors(n) == { <<>>, <<Junk>>, [i \in 1..(MaxL + 1) |-> Junk], [i \in 1..n |-> Junk] }    \* absent, shorter, longer, same length

Init ==
  /\ len \in 0..MaxL
  /\ salloc \in SUBSET (1..len)
  /\ driver \in {"parfile", "parblock"}
  /\ bs \in BlockSizes
  /\ reflink \in {"auto", "never", "always"}
  /\ kcopy \in {"cfr", "uspace"}               \* copy_file_range works, or fails with ENOSYS/EXDEV/EPERM (user-space loops)
  /\ dst \in Priors(len)
  /\ dalloc = 1..Len(dst)
  /\ pc = "create" /\ pos = 0 /\ segEnd = 0 /\ cur = 0 /\ want = 0
  /\ exts = <<>> /\ jobs = {} /\ result = "run"
  /\ clones = 0 /\ cloneAns = "none" /\ dataOps = 0 /\ mapped = "na"

Fixed == UNCHANGED <<len, salloc, driver, bs, reflink, kcopy>>

(***************************************************************************)
(* CopyHandle::new: open without truncation (+ identity test on the open   *)
(* descriptor), set_len(0), then allocate_file (ftruncate to the length)   *)
(***************************************************************************)
Create ==
  /\ pc = "create"
  /\ pc' = "truncate"
  /\ Fixed /\ UNCHANGED <<dst, dalloc, pos, segEnd, cur, want, exts, jobs, result, clones, cloneAns, dataOps, mapped>>

Truncate ==
  /\ pc = "truncate"
  /\ IF "NoTruncate" \in Deviations THEN UNCHANGED <<dst, dalloc>> ELSE dst' = <<>> /\ dalloc' = {}
  /\ pc' = "allocate"
  /\ Fixed /\ UNCHANGED <<pos, segEnd, cur, want, exts, jobs, result, clones, cloneAns, dataOps, mapped>>

Resize(s, n) == [i \in 1..n |-> IF i <= Len(s) THEN s[i] ELSE 0]

Allocate ==
  /\ pc = "allocate"
  /\ IF "NoAllocate" \in Deviations THEN UNCHANGED <<dst, dalloc>>
     ELSE dst' = Resize(dst, len) /\ dalloc' = dalloc \cap (1..len)
  /\ pc' = "clone"
  /\ Fixed /\ UNCHANGED <<pos, segEnd, cur, want, exts, jobs, result, clones, cloneAns, dataOps, mapped>>

(***************************************************************************)
(* try_reflink: the answer to FICLONE is the environment's choice.         *)
(***************************************************************************)
AfterClone == IF driver = "parfile" THEN (IF Sparse THEN "seek" ELSE "bytes0") ELSE (IF Sparse THEN "fiemap" ELSE "whole")

Clone ==
  /\ pc = "clone"
  /\ IF reflink = "never"
       THEN pc' = AfterClone /\ UNCHANGED <<dst, dalloc, result, clones, cloneAns>>
       ELSE \E ans \in {"ok", "unsupported", "error"} :
              /\ clones' = clones + 1
              /\ cloneAns' = ans
              /\ CASE ans = "ok" -> /\ dst' = Src /\ dalloc' = salloc
                                    /\ pc' = "finalise" /\ UNCHANGED result
                   [] ans = "unsupported" ->
                        /\ UNCHANGED <<dst, dalloc>>
                        /\ IF reflink = "always" THEN pc' = "end" /\ result' = "err"
                                                 ELSE pc' = AfterClone /\ UNCHANGED result
                   [] ans = "error" -> /\ UNCHANGED <<dst, dalloc>> /\ pc' = "end" /\ result' = "err"
  /\ Fixed /\ UNCHANGED <<pos, segEnd, cur, want, exts, jobs, dataOps, mapped>>

(***************************************************************************)
(* One kernel copy of at most `req` cells from offset `off` (0-based, in   *)
(* cells) to the same offset: moves k cells, 1 <= k <= req, fewer at EOF.  *)
(***************************************************************************)
Moved(d, off, k) == [i \in 1..Len(d) |-> IF i > off /\ i <= off + k THEN Src[i] ELSE d[i]]
\* what a write of k cells at off allocates in the destination (copy_file_range of a hole region allocates too)
Touch(a, off, k) == a \cup { i \in 1..len : i > off /\ i <= off + k }

(***************************************************************************)
(* parfile: copy_bytes(want) at the shared cursor; copy_sparse around it.  *)
(***************************************************************************)
Bytes0 ==                      \* dense file: copy_bytes(len) from offset 0
  /\ pc = "bytes0"
  /\ cur' = 0 /\ want' = len /\ pos' = len /\ pc' = "bytes"
  /\ Fixed /\ UNCHANGED <<dst, dalloc, segEnd, exts, jobs, result, clones, cloneAns, dataOps, mapped>>

Seek ==                        \* next_sparse_segments(pos): SEEK_DATA then SEEK_HOLE, both cursors to next_data
  /\ pc = "seek"
  /\ IF pos >= len
       THEN pc' = "finalise" /\ UNCHANGED <<cur, want, pos, segEnd>>
       ELSE LET later == { i \in salloc : i > pos }
                nd == IF later = {} THEN len ELSE (CHOOSE i \in later : \A j \in later : i <= j) - 1     \* next data (0-based)
                holes == { i \in (nd + 1)..len : i \notin salloc }
                nh == IF holes = {} THEN len ELSE (CHOOSE i \in holes : \A j \in holes : i <= j) - 1     \* next hole
            IN /\ cur' = nd /\ want' = nh - nd /\ segEnd' = nh /\ pos' = nh
               /\ pc' = "bytes"
  /\ Fixed /\ UNCHANGED <<dst, dalloc, exts, jobs, result, clones, cloneAns, dataOps, mapped>>

CopyBytes ==                   \* one iteration of the loop in copy_bytes: copy_file_bytes(min(rest, block_size))
  /\ pc = "bytes"
  /\ IF want = 0
       THEN pc' = (IF Sparse THEN "seek" ELSE "finalise")
            /\ UNCHANGED <<dst, dalloc, cur, want, dataOps>>
       ELSE LET req == Min(want, bs) IN
            \E k \in 1..req :              \* cfr: any count; user-space read(): any count, write_all completes it
              /\ dst' = Moved(dst, cur, k) /\ dalloc' = Touch(dalloc, cur, k)
              /\ cur' = cur + k /\ want' = want - k /\ dataOps' = dataOps + 1
              /\ pc' = pc
  /\ Fixed /\ UNCHANGED <<pos, segEnd, exts, jobs, result, clones, cloneAns, mapped>>

(***************************************************************************)
(* parblock: ranges -> block jobs.  Extents as the kernel reports them:    *)
(* the allocated runs, each possibly split further (environment).          *)
(***************************************************************************)
Runs ==     \* maximal runs of data cells as [s, e) 0-based
  { <<s, e>> \in (0..len) \X (0..len) :
       /\ s < e /\ \A i \in (s + 1)..e : i \in salloc
       /\ (s = 0 \/ s \notin salloc) /\ (e = len \/ (e + 1) \notin salloc) }

RECURSIVE SortRuns(_)
SortRuns(S) == IF S = {} THEN <<>>
               ELSE LET m == CHOOSE r \in S : \A q \in S : r[1] <= q[1] IN <<m>> \o SortRuns(S \ {m})

\* merge_extents (libfs/src/common.rs): contiguous when e.start = p.end + 1
RECURSIVE Merge(_, _)
Merge(acc, rest) ==
  IF rest = <<>> THEN acc
  ELSE LET e == Head(rest) IN
       IF acc # <<>> /\ e[1] = acc[Len(acc)][2] + 1
         THEN Merge([acc EXCEPT ![Len(acc)] = <<acc[Len(acc)][1], e[2]>>], Tail(rest))
         ELSE Merge(Append(acc, e), Tail(rest))

Fiemap ==
  /\ pc = "fiemap"
  /\ \E supported \in BOOLEAN :
       IF supported
         THEN \E split \in SUBSET (1..(len - 1)) :       \* the kernel may cut a run at any cell boundary
                LET pieces == { <<s, e>> \in (0..len) \X (0..len) :
                                  /\ s < e /\ \E r \in Runs : r[1] <= s /\ e <= r[2]
                                  /\ (s \in split \/ \E r \in Runs : r[1] = s)
                                  /\ (e \in split \/ \E r \in Runs : r[2] = e)
                                  /\ \A c \in split : ~(s < c /\ c < e) }
                \* merge_extents bridges a gap of exactly ONE BYTE; in cell units that is a one-cell gap only when a cell is a
                \* byte, so both outcomes are behaviours of the code (which one occurs depends on the cell size of the run)
                IN exts' \in {Merge(<<>>, SortRuns(pieces)), SortRuns(pieces)} /\ mapped' = "yes"
         ELSE exts' = <<<<0, len>>>> /\ mapped' = "no"    \* map_extents() = None: whole file
  /\ pc' = "queue"
  /\ Fixed /\ UNCHANGED <<dst, dalloc, pos, segEnd, cur, want, jobs, result, clones, cloneAns, dataOps>>

Whole ==
  /\ pc = "whole"
  /\ exts' = <<<<0, len>>>> /\ pc' = "queue"
  /\ Fixed /\ UNCHANGED <<dst, dalloc, pos, segEnd, cur, want, jobs, result, clones, cloneAns, dataOps, mapped>>

\* queue_file_range: blocks = ceil(n / bs); job k covers [start + k*bs, +min(rest, bs))
BlockJobs(r) ==
  LET n == r[2] - r[1]
      nb == (n \div bs) + (IF n % bs > 0 THEN 1 ELSE 0)
  IN { [off |-> r[1] + k * bs, n |-> Min(n - k * bs, bs), done |-> 0] : k \in 0..(nb - 1) }

Queue ==
  /\ pc = "queue"
  /\ IF exts = <<>> THEN pc' = "drain" /\ UNCHANGED <<exts, jobs>>
     ELSE jobs' = jobs \cup BlockJobs(Head(exts)) /\ exts' = Tail(exts) /\ pc' = pc
  /\ Fixed /\ UNCHANGED <<dst, dalloc, pos, segEnd, cur, want, result, clones, cloneAns, dataOps, mapped>>

BlockStep ==                   \* any pool worker advances any job by one kernel copy
  /\ \E j \in jobs :
       /\ j.done < j.n
       /\ \E k \in 1..(j.n - j.done) :
            /\ dst' = Moved(dst, j.off + j.done, k) /\ dalloc' = Touch(dalloc, j.off + j.done, k)
            /\ dataOps' = dataOps + 1
            /\ jobs' = (jobs \ {j}) \cup
                 { [j EXCEPT !.done = IF "BlockJobSingleShot" \in Deviations THEN j.n ELSE j.done + k] }
  /\ Fixed /\ UNCHANGED <<pc, pos, segEnd, cur, want, exts, result, clones, cloneAns, mapped>>

BlockFail ==                   \* user-space fallback only: a short pwrite is reported as an error (copy_range_uspace)
  /\ kcopy = "uspace" /\ result = "run"
  /\ \E j \in jobs :
       /\ j.n - j.done >= 2
       /\ \E k \in 1..(j.n - j.done - 1) :
            /\ dst' = Moved(dst, j.off + j.done, k) /\ dalloc' = Touch(dalloc, j.off + j.done, k)
  /\ result' = "err" /\ pc' = "end" /\ dataOps' = dataOps + 1
  /\ Fixed /\ UNCHANGED <<pos, segEnd, cur, want, exts, jobs, clones, cloneAns, mapped>>

Drain ==
  /\ pc = "drain" /\ \A j \in jobs : j.done = j.n
  /\ pc' = "finalise"
  /\ Fixed /\ UNCHANGED <<dst, dalloc, pos, segEnd, cur, want, exts, jobs, result, clones, cloneAns, dataOps, mapped>>

Finalise ==
  /\ pc = "finalise"
  /\ pc' = "end" /\ result' = "ok"
  /\ Fixed /\ UNCHANGED <<dst, dalloc, pos, segEnd, cur, want, exts, jobs, clones, cloneAns, dataOps, mapped>>

Done == pc = "end" /\ UNCHANGED vars

Main == Create \/ Truncate \/ Allocate \/ Clone \/ Bytes0 \/ Seek \/ CopyBytes \/ Fiemap \/ Whole \/ Queue \/ Drain \/ Finalise
Next == Main \/ BlockStep \/ BlockFail \/ Done
Spec == Init /\ [][Next]_vars /\ WF_vars(Main) /\ WF_vars(BlockStep)

(***************************************************************************)
(* Properties                                                              *)
(***************************************************************************)
\* C01 / C05: a successful copy is byte-exact, whatever the counts, the order of block jobs and the previous destination
Exact == result = "ok" => dst = Src
\* C11: nothing is allocated for a hole (when holes can be detected); the only slack is the single gap cell that
\* merge_extents may bridge between two extents
GapCells == { i \in Cells : i \notin salloc /\ (i - 1) \in salloc /\ (i + 1) \in salloc }
HolesStayHoles ==
  (pc \notin {"create", "truncate", "allocate"} /\ mapped # "no" /\ "NoTruncate" \notin Deviations)
     => dalloc \subseteq (salloc \cup (IF driver = "parblock" THEN GapCells ELSE {}))
\* C15
NeverClones     == reflink = "never" => clones = 0
AlwaysClones    == (reflink = "always" /\ result = "ok") => cloneOk /\ dataOps = 0
CloneBeforeData == dataOps > 0 => (reflink = "never" \/ clones = 1)
AutoFallsBack   == (reflink = "auto" /\ result = "err") => (cloneAns = "error" \/ kcopy = "uspace")
OneClone        == clones <= 1
\* C07 (data plane): every loop ends
Termination == <>(pc = "end")
=============================================================================
