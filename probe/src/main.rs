//! API probe: drives the public libfs / libxcp interfaces and prints what they return as JSON lines.
//!   xcp-probe extents <file>...                 map_extents, merge_extents, next_sparse_segments walk
//!   xcp-probe merge                             stdin: one JSON list [[start,end],..] per line -> merged list per line
//!   xcp-probe copy <driver> <rec|chan|noop> <config-json> <dest> <source>...
//!                                               runs driver.copy() with the chosen StatusUpdater; prints the update stream
use std::fs::File;
use std::io::{BufRead, Write};
use std::path::PathBuf;
use std::sync::atomic::{AtomicU64, Ordering};
use std::sync::{Arc, Mutex};
use std::time::{Duration, Instant};

use libfs::{map_extents, merge_extents, next_sparse_segments, Extent};
use libxcp::config::{Backup, Config, Reflink};
use libxcp::drivers::{load_driver, Drivers};
use libxcp::errors::Result as XResult;
use libxcp::feedback::{ChannelUpdater, NoopUpdater, StatusUpdate, StatusUpdater};
use serde_json::{json, Value};

fn ext_json(e: &Extent) -> Value {
    json!([e.start, e.end, e.shared])
}

fn cmd_extents(files: &[String]) -> anyhow::Result<()> {
    for f in files {
        let fd = File::open(f)?;
        let len = fd.metadata()?.len();
        let raw = map_extents(&fd)?;
        let (rawj, mergedj) = match raw {
            Some(v) => {
                let rj: Vec<Value> = v.iter().map(ext_json).collect();
                let m = merge_extents(v)?;
                (Value::Array(rj), Value::Array(m.iter().map(ext_json).collect()))
            }
            None => (Value::Null, Value::Null),
        };
        // segment walk exactly as copy_sparse does it
        let out = File::options().write(true).create(true).truncate(true).open(format!("{}.probe-out", f))?;
        let mut segs = vec![];
        let mut pos = 0u64;
        let mut guard = 0;
        while pos < len && guard < 100000 {
            let (d, h) = next_sparse_segments(&fd, &out, pos)?;
            segs.push(json!([d, h]));
            if h <= pos { break; }
            pos = h;
            guard += 1;
        }
        let _ = std::fs::remove_file(format!("{}.probe-out", f));
        println!("{}", json!({"file": f, "len": len, "extents": rawj, "merged": mergedj, "segments": segs,
                              "probably_sparse": libfs::probably_sparse(&fd)?}));
    }
    Ok(())
}

fn cmd_merge() -> anyhow::Result<()> {
    let stdin = std::io::stdin();
    let stdout = std::io::stdout();
    let mut out = stdout.lock();
    for line in stdin.lock().lines() {
        let line = line?;
        if line.trim().is_empty() { continue; }
        let v: Vec<Vec<u64>> = serde_json::from_str(&line)?;
        let exts: Vec<Extent> = v.iter().map(|p| Extent { start: p[0], end: p[1], shared: false }).collect();
        let m = merge_extents(exts)?;
        let mj: Vec<Value> = m.iter().map(|e| json!([e.start, e.end])).collect();
        writeln!(out, "{}", Value::Array(mj))?;
    }
    Ok(())
}

/// Client-supplied updater: linearises concurrent send() calls with a mutex and a sequence number.
/// For Size it first sleeps (outside the mutex) - sound, see DESIGN 5 (C12).
struct Recorder {
    log: Mutex<Vec<(u64, &'static str, u64, String)>>,
    seq: AtomicU64,
    size_delay_us: u64,
    marker_fd: i32,
}

impl StatusUpdater for Recorder {
    fn send(&self, update: StatusUpdate) -> XResult<()> {
        if let StatusUpdate::Size(_) = update {
            if self.size_delay_us > 0 {
                std::thread::sleep(Duration::from_micros(self.size_delay_us));
            }
        }
        let mut g = self.log.lock().unwrap();
        let n = self.seq.fetch_add(1, Ordering::SeqCst) + 1;
        let (k, v, e) = match update {
            StatusUpdate::Copied(v) => ("Copied", v, String::new()),
            StatusUpdate::Size(v) => ("Size", v, String::new()),
            StatusUpdate::Error(e) => ("Error", 0, e.to_string()),
        };
        if self.marker_fd >= 0 {
            let m = format!("XCPVERIF:status {} {} {}\n", n, k, v);
            unsafe { libc::write(self.marker_fd, m.as_ptr() as *const libc::c_void, m.len()); }
        }
        g.push((n, k, v, e));
        Ok(())
    }
}

fn config_from(v: &Value) -> Config {
    let mut c = Config::default();
    let b = |k: &str| v.get(k).and_then(|x| x.as_bool()).unwrap_or(false);
    c.workers = v.get("workers").and_then(|x| x.as_u64()).unwrap_or(4) as usize;
    c.block_size = v.get("block_size").and_then(|x| x.as_u64()).unwrap_or(u64::MAX);
    c.gitignore = b("gitignore");
    c.no_clobber = b("no_clobber");
    c.no_perms = b("no_perms");
    c.no_timestamps = b("no_timestamps");
    c.ownership = b("ownership");
    c.dereference = b("dereference");
    c.no_target_directory = b("no_target_directory");
    c.fsync = b("fsync");
    c.reflink = match v.get("reflink").and_then(|x| x.as_str()).unwrap_or("auto") {
        "never" => Reflink::Never,
        "always" => Reflink::Always,
        _ => Reflink::Auto,
    };
    c.backup = match v.get("backup").and_then(|x| x.as_str()).unwrap_or("none") {
        "numbered" => Backup::Numbered,
        "auto" => Backup::Auto,
        _ => Backup::None,
    };
    c
}

fn cmd_copy(args: &[String]) -> anyhow::Result<()> {
    let driver: Drivers = args[0].parse().map_err(|_| anyhow::anyhow!("bad driver"))?;
    let kind = args[1].as_str();
    let cfgv: Value = serde_json::from_str(&args[2])?;
    let dest = PathBuf::from(&args[3]);
    let sources: Vec<PathBuf> = args[4..].iter().map(PathBuf::from).collect();
    let config = Arc::new(config_from(&cfgv));
    let drv = load_driver(driver, &config)?;
    let t0 = Instant::now();
    match kind {
        "rec" => {
            let rec = Arc::new(Recorder {
                log: Mutex::new(vec![]),
                seq: AtomicU64::new(0),
                size_delay_us: cfgv.get("size_delay_us").and_then(|x| x.as_u64()).unwrap_or(0),
                marker_fd: cfgv.get("marker_fd").and_then(|x| x.as_i64()).unwrap_or(-1) as i32,
            });
            let up: Arc<dyn StatusUpdater> = rec.clone();
            let r = drv.copy(sources, &dest, up);
            // copy() may return (with an error) while other workers are still finishing queued work;
            // the stream has ended once every clone of the updater is gone.
            let deadline = Instant::now() + Duration::from_secs(cfgv.get("drain_timeout_s").and_then(|x| x.as_u64()).unwrap_or(40));
            while Arc::strong_count(&rec) > 1 && Instant::now() < deadline {
                std::thread::sleep(Duration::from_millis(5));
            }
            let holders = Arc::strong_count(&rec);
            for (n, k, v, e) in rec.log.lock().unwrap().iter() {
                println!("{}", json!({"seq": n, "u": k, "n": v.to_string(), "err": e}));
            }
            println!("{}", json!({"end": true, "result": if r.is_ok() { "ok" } else { "err" }, "error": r.err().map(|e| e.to_string()).unwrap_or_default(),
                                  "holders_after": holders, "closed": holders == 1, "wall_ms": t0.elapsed().as_millis() as u64}));
        }
        "chan" => {
            let up = ChannelUpdater::new(&config);
            let rx = up.rx_channel();
            let stats: Arc<dyn StatusUpdater> = Arc::new(up);
            let h = std::thread::spawn(move || drv.copy(sources, &dest, stats));
            let mut n = 0u64;
            let mut closed = false;
            // drain until the channel disconnects; bounded wait so a never-closing channel is reported, not hung on
            let deadline = Instant::now() + Duration::from_secs(cfgv.get("drain_timeout_s").and_then(|x| x.as_u64()).unwrap_or(40));
            loop {
                match rx.recv_timeout(Duration::from_millis(200)) {
                    Ok(u) => {
                        n += 1;
                        let (k, v, e) = match u {
                            StatusUpdate::Copied(v) => ("Copied", v, String::new()),
                            StatusUpdate::Size(v) => ("Size", v, String::new()),
                            StatusUpdate::Error(e) => ("Error", 0, e.to_string()),
                        };
                        println!("{}", json!({"seq": n, "u": k, "n": v.to_string(), "err": e}));
                    }
                    Err(crossbeam_channel::RecvTimeoutError::Disconnected) => { closed = true; break; }
                    Err(crossbeam_channel::RecvTimeoutError::Timeout) => {
                        if Instant::now() > deadline { break; }
                    }
                }
            }
            let finished = h.is_finished();
            let r = if finished || closed { Some(h.join()) } else { None };
            let (res, err) = match r {
                Some(Ok(Ok(()))) => ("ok", String::new()),
                Some(Ok(Err(e))) => ("err", e.to_string()),
                Some(Err(_)) => ("panic", String::new()),
                None => ("hang", String::new()),
            };
            println!("{}", json!({"end": true, "result": res, "error": err, "closed": closed, "wall_ms": t0.elapsed().as_millis() as u64}));
        }
        _ => {
            let up: Arc<dyn StatusUpdater> = Arc::new(NoopUpdater);
            let r = drv.copy(sources, &dest, up);
            println!("{}", json!({"end": true, "result": if r.is_ok() { "ok" } else { "err" }, "error": r.err().map(|e| e.to_string()).unwrap_or_default(),
                                  "closed": true, "wall_ms": t0.elapsed().as_millis() as u64}));
        }
    }
    Ok(())
}

fn main() -> anyhow::Result<()> {
    let args: Vec<String> = std::env::args().skip(1).collect();
    match args.first().map(|s| s.as_str()) {
        Some("extents") => cmd_extents(&args[1..]),
        Some("merge") => cmd_merge(),
        Some("copy") => cmd_copy(&args[1..]),
        _ => { eprintln!("usage: xcp-probe extents|merge|copy ..."); std::process::exit(2) }
    }
}
